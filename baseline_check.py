#!/usr/bin/env python3
"""Run the repository's pinned suite with the `verif` feature OFF and compare with BASELINE.json."""
import json, subprocess, sys
import xml.etree.ElementTree as ET
cmd = "cd /repo && cargo nextest run --workspace --no-fail-fast --tool-config-file pb:/w/lib/nextest.toml --profile pb --test-threads 8 --offline"
subprocess.run(cmd, shell=True, stdout=subprocess.DEVNULL, stderr=subprocess.DEVNULL)
b = json.load(open('/root/.vp/BASELINE.json'))
sp = set(b['stable_pass'])
res = {}
for tc in ET.parse('/repo/target/nextest/pb/junit.xml').iter('testcase'):
    res[tc.get('classname') + '::' + tc.get('name')] = tc.find('failure') is None and tc.find('error') is None
missing = sorted(s for s in sp if s not in res)
failed = sorted(s for s in sp if s in res and not res[s])
print(f"ran {len(res)}, passed {sum(res.values())}; stable_pass {len(sp)}: missing {len(missing)}, failed {len(failed)}")
for s in (missing + failed)[:40]:
    print("  ", s)
sys.exit(1 if missing or failed else 0)
