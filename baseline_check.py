#!/usr/bin/env python3
"""Run the repository's pinned suite with the `verif` feature OFF and compare with BASELINE.json.
Tests of the stable_pass list that fail are run once more on their own (integration tests that
spawn `ord` flake on a loaded machine); only those that fail again are reported."""
import json, os, subprocess, sys
import xml.etree.ElementTree as ET
env = dict(os.environ)
env.pop("RUST_BACKTRACE", None)   # ~100 integration tests compare stderr exactly
cmd = "cd /repo && cargo nextest run --workspace --no-fail-fast --tool-config-file pb:/w/lib/nextest.toml --profile pb --test-threads 8 --offline"
subprocess.run(cmd, shell=True, stdout=subprocess.DEVNULL, stderr=subprocess.DEVNULL, env=env)
b = json.load(open('/root/.vp/BASELINE.json'))
sp = set(b['stable_pass'])
res = {}
for tc in ET.parse('/repo/target/nextest/pb/junit.xml').iter('testcase'):
    res[tc.get('classname') + '::' + tc.get('name')] = tc.find('failure') is None and tc.find('error') is None
missing = sorted(s for s in sp if s not in res)
failed = sorted(s for s in sp if s in res and not res[s])
print(f"ran {len(res)}, passed {sum(res.values())}; stable_pass {len(sp)}: missing {len(missing)}, failed {len(failed)}")
if failed and len(failed) <= 60:
    flt = " | ".join("test(=" + f.split("::", 2)[2] + ")" for f in failed if f.count("::") >= 2)
    p = subprocess.run(f"cd /repo && cargo nextest run --workspace --no-fail-fast --test-threads 2 --offline -E '{flt}'", shell=True, capture_output=True, text=True, env=env)
    out = p.stdout + p.stderr
    still = [f for f in failed if any(" FAIL " in l and f.split("::", 2)[-1] in l for l in out.splitlines())]
    print(f"re-run alone: {len(failed) - len(still)} of {len(failed)} passed")
    failed = still
for s in (missing + failed)[:40]:
    print("  ", s)
sys.exit(1 if missing or failed else 0)
