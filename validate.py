#!/opt/veriftools/pyvenv/bin/python
"""Validate MANIFEST.json and every evidence file against the given schemas."""
import glob, json, sys, jsonschema
ok = True
def v(path, schema):
    global ok
    try:
        jsonschema.validate(json.load(open(path)), json.load(open(schema)))
    except Exception as e:
        ok = False
        print("INVALID", path, str(e)[:400])
v("/verif/MANIFEST.json", "/root/.vp/MANIFEST.schema.json")
for f in sorted(glob.glob("/verif/evidence/*.json")):
    v(f, "/root/.vp/EVIDENCE.schema.json")
print("valid" if ok else "INVALID")
sys.exit(0 if ok else 1)
