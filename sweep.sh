#!/bin/sh
# Run every registered check once at the given tier and seeds; print one line per run.
#   ./sweep.sh quick 1 2 3
tier=${1:-quick}; shift
[ $# -eq 0 ] && set -- 1
cd "$(dirname "$0")"
for seed in "$@"; do
  for id in $(jq -r '.checks[].property_id' MANIFEST.json); do
    out=$(VERIF_SEED=$seed ./run "$id" "$tier" 2>&1); rc=$?
    echo "seed=$seed $id rc=$rc $(echo "$out" | grep -c '^VIOLATION') violation-lines :: $(echo "$out" | grep '^\[run\] C' | tail -1)"
    [ $rc -ne 0 ] && echo "$out" | grep -E '^(VIOLATION|INCONCLUSIVE|  signature|  detail)' | cut -c1-600
  done
done
