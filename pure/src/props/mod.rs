#[path = "../../../harness/src/props/c26.rs"]
pub mod c26;
#[path = "../../../harness/src/props/c29.rs"]
pub mod c29;
#[path = "../../../harness/src/props/c32.rs"]
pub mod c32;
#[path = "../../../harness/src/props/c33.rs"]
pub mod c33;
