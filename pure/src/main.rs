//! Miri / valgrind entry point for the value-level workloads. Shares the
//! property drivers with /verif/harness.
#![allow(dead_code)]

#[path = "../../harness/src/big.rs"]
mod big;
#[path = "../../harness/src/ctx.rs"]
mod ctx;
#[path = "../../harness/src/report.rs"]
mod report;
#[path = "../../harness/src/rng.rs"]
mod rng;
mod props;

fn main() {
  let args: Vec<String> = std::env::args().collect();
  let prop = args[1].clone();
  let ctx = ctx::Ctx::parse(&prop, &args[2..]);
  let mut rep = report::Report::new(&prop);
  std::panic::set_hook(Box::new(|info| {
    let loc = info.location().map(|l| format!("{}:{}", l.file(), l.line())).unwrap_or_default();
    report::LAST_PANIC_LOCATION.with(|c| *c.borrow_mut() = loc);
  }));
  match prop.as_str() {
    "C25" => props::c25::run(&ctx, &mut rep),
    "C26" => props::c26::run(&ctx, &mut rep),
    "C29" | "C30" => props::c29::run(&ctx, &mut rep, &prop),
    "C32" => props::c32::run(&ctx, &mut rep),
    "C33" => props::c33::run(&ctx, &mut rep),
    other => panic!("unknown property {other}"),
  }
  if ctx.out.is_empty() {
    println!("{}", serde_json::to_string(&rep.to_json()).unwrap());
  } else {
    rep.write(&ctx.out);
  }
}
