#!/usr/bin/env python3
"""Regenerate MANIFEST.json from checks.py (claimed) and properties.jsonl (all)."""
import json
import os
import subprocess

VERIF = os.path.dirname(os.path.abspath(__file__))
import sys
sys.path.insert(0, VERIF)
from checks import CHECKS, NOT_APPLICABLE  # noqa: E402

props = [json.loads(l) for l in open(os.path.join(VERIF, "properties.jsonl"))]
ids = [p["id"] for p in props]

hook_commits = subprocess.run(
    ["git", "-C", "/repo", "log", "--format=%H %s", "--grep=^verif hooks"], capture_output=True, text=True
).stdout.strip().splitlines()

manifest = {
    "version": 1,
    "setup_cmd": "./run setup",
    "hooks": {
        "guard": "cargo feature `verif` of package `ord` (off by default)",
        "enable": "the harness crate /verif/harness depends on ord by path with features=[\"verif\"]; every check first runs `cargo build --offline` there, which rebuilds /repo's working tree with the hooks on",
        "baseline_off_cmd": "cd /repo && cargo nextest run --workspace --no-fail-fast --tool-config-file pb:/w/lib/nextest.toml --profile pb --test-threads 8 --offline || cargo test --workspace --no-fail-fast --offline",
        "source_commits": [c.split()[0] for c in hook_commits],
        "add_only": True,
    },
    "engines": [
        {
            "name": "harness",
            "path": "harness/",
            "serves_properties": sorted(CHECKS),
            "kind_free_text": "Rust binary linking the real ord library (hooks on), mockcore and ordinals; generators, reference models, monitors, fault injection; sharded over 16 processes by ./run",
        },
        {
            "name": "pure",
            "path": "pure/",
            "serves_properties": sorted(k for k, v in CHECKS.items() if v.get("miri")),
            "kind_free_text": "ordinals-only crate re-using the value-level workloads; executed under Miri (UB interpreter) in the thorough tier",
        },
    ],
    "checks": [],
    "not_applicable": [],
    "notes": "Technique family: runtime monitoring and sanitizers. Every verdict reads 'held on the executions observed'. Exit 2 + INCONCLUSIVE line = no verdict (harness error / watchdog / coverage floor). See DESIGN.md.",
}

for pid in ids:
    if pid in CHECKS:
        c = CHECKS[pid]
        manifest["checks"].append({
            "property_id": pid,
            "quick_cmd": f"./run {pid} quick",
            "thorough_cmd": f"./run {pid} thorough",
            "evidence_file": f"evidence/{pid}.json",
            "replay_cmd_template": "./run replay {path}",
            "engine": "harness",
            "level_claimed": {
                "category": c["level"],
                "text": c["level_text"],
                "design_ref": f"DESIGN.md §3 {pid}",
            },
            "level_note": "; ".join(c["assumptions"]),
            "technique": c["technique"],
        })
    else:
        manifest["not_applicable"].append({
            "property_id": pid,
            "reason": NOT_APPLICABLE.get(pid, "check not built yet; runtime monitoring applies (see DESIGN.md §3) but no monitor is registered for it in this commit"),
        })

json.dump(manifest, open(os.path.join(VERIF, "MANIFEST.json"), "w"), indent=1)
print(f"claimed {len(manifest['checks'])}, not claimed {len(manifest['not_applicable'])}")
