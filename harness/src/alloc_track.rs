//! Counting global allocator: when armed, tracks the bytes currently
//! allocated and their peak. Used by the bounded-decoding monitor (C28).
//! Disarmed it costs one relaxed load per allocation.

use std::{
  alloc::{GlobalAlloc, Layout, System},
  sync::atomic::{AtomicBool, AtomicIsize, Ordering},
};

pub struct Tracking;

static ARMED: AtomicBool = AtomicBool::new(false);
static CURRENT: AtomicIsize = AtomicIsize::new(0);
static PEAK: AtomicIsize = AtomicIsize::new(0);

unsafe impl GlobalAlloc for Tracking {
  unsafe fn alloc(&self, layout: Layout) -> *mut u8 {
    let p = unsafe { System.alloc(layout) };
    if !p.is_null() && ARMED.load(Ordering::Relaxed) {
      let now = CURRENT.fetch_add(layout.size() as isize, Ordering::Relaxed) + layout.size() as isize;
      PEAK.fetch_max(now, Ordering::Relaxed);
    }
    p
  }

  unsafe fn dealloc(&self, ptr: *mut u8, layout: Layout) {
    unsafe { System.dealloc(ptr, layout) };
    if ARMED.load(Ordering::Relaxed) {
      CURRENT.fetch_sub(layout.size() as isize, Ordering::Relaxed);
    }
  }

  unsafe fn alloc_zeroed(&self, layout: Layout) -> *mut u8 {
    let p = unsafe { System.alloc_zeroed(layout) };
    if !p.is_null() && ARMED.load(Ordering::Relaxed) {
      let now = CURRENT.fetch_add(layout.size() as isize, Ordering::Relaxed) + layout.size() as isize;
      PEAK.fetch_max(now, Ordering::Relaxed);
    }
    p
  }

  unsafe fn realloc(&self, ptr: *mut u8, layout: Layout, new_size: usize) -> *mut u8 {
    let p = unsafe { System.realloc(ptr, layout, new_size) };
    if !p.is_null() && ARMED.load(Ordering::Relaxed) {
      let delta = new_size as isize - layout.size() as isize;
      let now = CURRENT.fetch_add(delta, Ordering::Relaxed) + delta;
      PEAK.fetch_max(now, Ordering::Relaxed);
    }
    p
  }
}

/// Run `f` and return its result together with the peak number of bytes
/// allocated above the level at entry (memory freed inside `f` that was
/// allocated before is ignored: the level can only be under-estimated by
/// that, which makes the monitor more lenient, never stricter).
pub fn measure<T>(f: impl FnOnce() -> T) -> (T, usize) {
  CURRENT.store(0, Ordering::SeqCst);
  PEAK.store(0, Ordering::SeqCst);
  ARMED.store(true, Ordering::SeqCst);
  let r = f();
  ARMED.store(false, Ordering::SeqCst);
  (r, PEAK.load(Ordering::SeqCst).max(0) as usize)
}
