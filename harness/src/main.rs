#![allow(dead_code, clippy::too_many_arguments)]
//! Runtime-monitoring harness for ordinals/ord. One sub-command per property;
//! see /verif/DESIGN.md.

mod alloc_track;
mod big;
mod chainbuild;
mod ctx;
mod dump;
mod explorer;
mod hooks;
mod blockgen;
mod gen_insc;
mod gen_runes;
mod idx;
mod model;
mod node;
mod props;
mod report;
mod rng;
mod walletlab;

#[global_allocator]
static GLOBAL: alloc_track::Tracking = alloc_track::Tracking;

use ctx::Ctx;
use report::Report;

fn install_panic_hook() {
  // Panics of the code under test are caught and turned into structured
  // violations; keep stderr quiet unless asked, but remember the location.
  let verbose = std::env::var_os("VERIF_LOG").is_some();
  std::panic::set_hook(Box::new(move |info| {
    let loc = info
      .location()
      .map(|l| format!("{}:{}", l.file(), l.line()))
      .unwrap_or_default();
    report::LAST_PANIC_LOCATION.with(|c| *c.borrow_mut() = loc.clone());
    // a panic outside report::catch is the harness's own (or an un-monitored
    // query's) and ends the shard: always say where
    if verbose || report::CATCH_DEPTH.with(|c| c.get()) == 0 {
      eprintln!("panic at {loc}: {}", report::payload_message(info.payload()));
      if std::env::var_os("VERIF_BACKTRACE").is_some() {
        eprintln!("{}", std::backtrace::Backtrace::force_capture());
      }
    }
  }));
}

fn main() {
  let args: Vec<String> = std::env::args().collect();
  // re-executed under the name `ord`: be the real command line
  if std::path::Path::new(&args[0]).file_name().and_then(|n| n.to_str()) == Some("ord") {
    ord::main();
    return;
  }
  if args.len() < 2 {
    eprintln!("usage: harness <property> [--seed N --shard K --nshards N --tier quick|thorough --budget-ms N --case N --out FILE]");
    std::process::exit(3);
  }
  if std::env::var_os("VERIF_LOG").is_some() {
    let _ = env_logger::try_init();
  }
  install_panic_hook();
  let prop = args[1].clone();
  if prop == "worker" {
    props::c13::worker_main(&args[2..]);
  }
  let ctx = Ctx::parse(&prop, &args[2..]);
  let mut rep = Report::new(&prop);
  match prop.as_str() {
    p if props::chain_driver::CHAIN_PROPS.contains(&p) => props::chain::run(&ctx, &mut rep),
    "C12" => props::c12::run(&ctx, &mut rep),
    "C13" => props::c13::run(&ctx, &mut rep),
    "C14" => props::c14::run(&ctx, &mut rep),
    "C15" => props::c15::run(&ctx, &mut rep),
    "C25" => props::c25::run(&ctx, &mut rep),
    "C26" => props::c26::run(&ctx, &mut rep),
    "C29" | "C30" => props::c29::run(&ctx, &mut rep, &prop),
    "C31" => props::c31::run_c31(&ctx, &mut rep),
    "C34" => props::c31::run_c34(&ctx, &mut rep),
    "C32" => props::c32::run(&ctx, &mut rep),
    "C33" => props::c33::run(&ctx, &mut rep),
    "C18" => props::c18::run(&ctx, &mut rep),
    "C19" => props::c19::run(&ctx, &mut rep),
    "C20" => props::c20::run(&ctx, &mut rep),
    "C21" => props::c21::run(&ctx, &mut rep),
    "C22" => props::c22::run(&ctx, &mut rep),
    "C23" => props::c23::run(&ctx, &mut rep),
    "C24" => props::c24::run(&ctx, &mut rep),
    "C27" => props::c27::run(&ctx, &mut rep),
    "C28" => props::c28::run(&ctx, &mut rep),
    "C35" => props::c35::run(&ctx, &mut rep),
    "C36" => props::c36::run(&ctx, &mut rep),
    other => {
      eprintln!("unknown property {other}");
      std::process::exit(3);
    }
  }
  if ctx.out.is_empty() {
    println!("{}", serde_json::to_string_pretty(&rep.to_json()).unwrap());
  } else {
    rep.write(&ctx.out);
  }
}
