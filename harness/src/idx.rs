//! Opening the real `ord::Index` against the mock node.

use crate::node::Node;
use clap::Parser;
use ord::{Index, options::Options, settings::Settings};
use std::{collections::BTreeMap, path::Path};

#[derive(Clone, Debug, PartialEq, Eq, Hash)]
pub struct IndexCfg {
  pub sats: bool,
  pub addresses: bool,
  pub transactions: bool,
  pub runes: bool,
  pub inscriptions: bool,
  pub commit_interval: Option<usize>,
  pub savepoint_interval: Option<usize>,
  pub max_savepoints: Option<usize>,
  pub integration_test: bool,
  pub height_limit: Option<u32>,
  pub bitcoin_rpc_limit: Option<u32>,
}

impl IndexCfg {
  pub fn all() -> Self {
    IndexCfg {
      sats: true,
      addresses: true,
      transactions: true,
      runes: true,
      inscriptions: true,
      commit_interval: None,
      savepoint_interval: None,
      max_savepoints: None,
      integration_test: false,
      height_limit: None,
      bitcoin_rpc_limit: None,
    }
  }

  pub fn from_bits(bits: u32) -> Self {
    IndexCfg {
      sats: bits & 1 != 0,
      addresses: bits & 2 != 0,
      transactions: bits & 4 != 0,
      runes: bits & 8 != 0,
      inscriptions: bits & 16 != 0,
      ..IndexCfg::all()
    }
  }

  pub fn label(&self) -> String {
    format!(
      "{}{}{}{}{}/ci{}/sp{}x{}",
      if self.sats { "S" } else { "-" },
      if self.addresses { "A" } else { "-" },
      if self.transactions { "T" } else { "-" },
      if self.runes { "R" } else { "-" },
      if self.inscriptions { "I" } else { "-" },
      self.commit_interval.map(|c| c.to_string()).unwrap_or("d".into()),
      self.savepoint_interval.map(|c| c.to_string()).unwrap_or("d".into()),
      self.max_savepoints.map(|c| c.to_string()).unwrap_or("d".into()),
    )
  }

  pub fn args(&self, node: &Node, dir: &Path) -> Vec<String> {
    let chain = match node.network {
      bitcoin::Network::Bitcoin => "mainnet",
      bitcoin::Network::Regtest => "regtest",
      bitcoin::Network::Signet => "signet",
      bitcoin::Network::Testnet => "testnet",
      bitcoin::Network::Testnet4 => "testnet4",
    };
    let mut args: Vec<String> = vec![
      "ord".into(),
      "--chain".into(),
      chain.into(),
      "--bitcoin-rpc-url".into(),
      node.url(),
      "--cookie-file".into(),
      node.cookie_file().display().to_string(),
      "--data-dir".into(),
      dir.display().to_string(),
      "--index".into(),
      dir.join("index.redb").display().to_string(),
      "--index-cache-size".into(),
      "67108864".into(),
    ];
    if self.sats {
      args.push("--index-sats".into());
    }
    if self.addresses {
      args.push("--index-addresses".into());
    }
    if self.transactions {
      args.push("--index-transactions".into());
    }
    if self.runes {
      args.push("--index-runes".into());
    }
    if !self.inscriptions {
      args.push("--no-index-inscriptions".into());
    }
    if self.integration_test {
      args.push("--integration-test".into());
    }
    if let Some(c) = self.commit_interval {
      args.extend(["--commit-interval".into(), c.to_string()]);
    }
    if let Some(c) = self.savepoint_interval {
      args.extend(["--savepoint-interval".into(), c.to_string()]);
    }
    if let Some(c) = self.max_savepoints {
      args.extend(["--max-savepoints".into(), c.to_string()]);
    }
    if let Some(c) = self.height_limit {
      args.extend(["--height-limit".into(), c.to_string()]);
    }
    if let Some(c) = self.bitcoin_rpc_limit {
      args.extend(["--bitcoin-rpc-limit".into(), c.to_string()]);
    }
    args
  }

  pub fn settings(&self, node: &Node, dir: &Path) -> anyhow::Result<Settings> {
    let options = Options::try_parse_from(self.args(node, dir))?;
    Settings::merge(options, BTreeMap::new())
  }

  pub fn open(&self, node: &Node, dir: &Path) -> anyhow::Result<Index> {
    Index::open(&self.settings(node, dir)?)
  }

  pub fn open_with_events(
    &self,
    node: &Node,
    dir: &Path,
    sender: tokio::sync::mpsc::Sender<ord::index::event::Event>,
  ) -> anyhow::Result<Index> {
    Index::open_with_event_sender(&self.settings(node, dir)?, Some(sender))
  }
}
