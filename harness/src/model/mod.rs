//! Reference models folded over the same chain as the real index.

pub mod insc;
pub mod runes;
pub mod sats;

use bitcoin::{Block, OutPoint, Txid};
use ord::InscriptionId;

#[derive(Clone, Default)]
pub struct Model {
  pub sats: sats::RefSats,
  pub insc: insc::RefInscriptions,
  pub runes: runes::RefRunes,
  /// the blocks applied so far (index = height)
  pub blocks: Vec<Block>,
  /// track inscriptions / runes (off for pure sat scenarios with duplicate txids)
  pub track_inscriptions: bool,
  pub track_runes: bool,
}

impl Model {
  pub fn new() -> Model {
    Model { track_inscriptions: true, track_runes: true, ..Default::default() }
  }

  pub fn height(&self) -> u32 {
    self.sats.blocks
  }

  pub fn apply_block(&mut self, block: &Block) {
    let height = self.sats.blocks;
    // runes need the pre-block view of which outputs are taproot and when
    // they were created; they read it from `self.sats` before it advances
    if self.track_runes {
      self.runes.apply_block(height, block, &self.sats);
    }
    let flows = self.sats.apply_block(block);
    if self.track_inscriptions {
      self.insc.apply_block(height, block, &flows);
    }
    self.blocks.push(block.clone());
  }

  /// Rebuild from scratch on a (new) active chain, genesis first.
  pub fn replay(chain: &[Block], like: &Model) -> Model {
    let mut m = Model { track_inscriptions: like.track_inscriptions, track_runes: like.track_runes, ..Default::default() };
    m.runes.first_rune_height = like.runes.first_rune_height;
    m.runes.network = like.runes.network;
    for b in chain {
      m.apply_block(b);
    }
    m
  }

  pub fn inscriptions_in(&self, outpoint: &OutPoint) -> Vec<InscriptionId> {
    match self.sats.utxos.get(outpoint) {
      Some(out) => self.insc.in_ranges(&out.ranges),
      None => Vec::new(),
    }
  }

  pub fn is_interesting(&self, outpoint: &OutPoint) -> bool {
    !self.inscriptions_in(outpoint).is_empty() || self.runes.balances.contains_key(outpoint)
  }

  pub fn txid_is_interesting(&self, txid: &Txid) -> bool {
    self
      .sats
      .utxos
      .range(OutPoint { txid: *txid, vout: 0 }..=OutPoint { txid: *txid, vout: u32::MAX })
      .any(|(op, _)| self.is_interesting(op))
  }
}
