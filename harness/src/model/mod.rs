//! Reference models folded over the same chain as the real index.

pub mod sats;

use bitcoin::{Block, OutPoint, Txid};

#[derive(Clone, Default)]
pub struct Model {
  pub sats: sats::RefSats,
  /// the blocks applied so far (index = height)
  pub blocks: Vec<Block>,
}

impl Model {
  pub fn new() -> Model {
    Model::default()
  }

  pub fn height(&self) -> u32 {
    self.sats.blocks
  }

  pub fn apply_block(&mut self, block: &Block) {
    let _flows = self.sats.apply_block(block);
    self.blocks.push(block.clone());
  }

  /// Rebuild from scratch on a (new) active chain, genesis first.
  pub fn replay(chain: &[Block]) -> Model {
    let mut m = Model::new();
    for b in chain {
      m.apply_block(b);
    }
    m
  }

  pub fn is_interesting(&self, _outpoint: &OutPoint) -> bool {
    false
  }

  pub fn txid_is_interesting(&self, _txid: &Txid) -> bool {
    false
  }
}
