//! RefSats — the ordinal-theory BIP's `assign_ordinals`, written naively:
//! every unspent output carries its sat ranges as a plain vector of
//! (start, end) pairs; each block's subsidy followed by every transaction's
//! fee sats (block order) feed the coinbase outputs; inputs flow to outputs
//! first-in-first-out; unclaimed sats are lost; a transaction that re-uses
//! the txid of unspent outputs displaces them (their sats are destroyed).
//!
//! Shares no code with src/index/updater*.

use bitcoin::{Block, OutPoint, ScriptBuf, Transaction, Txid};
use std::collections::{BTreeMap, VecDeque};

pub const HALVING: u32 = 210_000;

pub fn subsidy(height: u32) -> u64 {
  let e = height / HALVING;
  if e >= 33 { 0 } else { (50 * 100_000_000u64) >> e }
}

pub fn first_sat(height: u32) -> u64 {
  let mut start = 0u64;
  let mut h = 0u32;
  // closed form per epoch
  while h + HALVING <= height {
    start += subsidy(h) * u64::from(HALVING);
    h += HALVING;
  }
  start + u64::from(height - h) * subsidy(height)
}

pub type Ranges = Vec<(u64, u64)>;

#[derive(Clone, Debug, PartialEq, Eq)]
pub struct RefOut {
  pub value: u64,
  pub script: ScriptBuf,
  pub ranges: Ranges,
  pub height: u32,
  pub coinbase: bool,
}

/// What one transaction did, for the other models (inscriptions follow sats).
#[derive(Clone, Debug, Default)]
pub struct TxFlow {
  pub txid: Option<Txid>,
  /// concatenated input sat ranges, in input order (subsidy + fees for the coinbase)
  pub input_ranges: Ranges,
  /// value of each input, in order (coinbase: one pseudo-input)
  pub input_values: Vec<u64>,
  pub total_out: u64,
}

#[derive(Clone, Debug, Default)]
pub struct RefSats {
  pub utxos: BTreeMap<OutPoint, RefOut>,
  /// ranges of the lost-sats pseudo-output, in the order they were lost
  pub lost: Ranges,
  /// ranges destroyed by duplicate txids
  pub destroyed: Ranges,
  /// number of blocks applied (next height)
  pub blocks: u32,
  pub displaced_outputs: u64,
  /// (height, outpoint, ranges) of every displacement, for diagnostics
  pub displaced_log: Vec<(u32, OutPoint, Ranges)>,
}

pub fn total(ranges: &[(u64, u64)]) -> u64 {
  ranges.iter().map(|(a, b)| b - a).sum()
}

fn take(queue: &mut VecDeque<(u64, u64)>, mut n: u64) -> Ranges {
  let mut out = Vec::new();
  while n > 0 {
    let (a, b) = queue.pop_front().expect("reference model: outputs exceed inputs (generator bug)");
    let len = b - a;
    if len <= n {
      out.push((a, b));
      n -= len;
    } else {
      out.push((a, a + n));
      queue.push_front((a + n, b));
      n = 0;
    }
  }
  out
}

/// The sat at position `p` of a concatenation of ranges.
pub fn sat_at(ranges: &[(u64, u64)], mut p: u64) -> Option<u64> {
  for (a, b) in ranges {
    let len = b - a;
    if p < len {
      return Some(a + p);
    }
    p -= len;
  }
  None
}

impl RefSats {
  /// Apply the next block; returns the per-transaction flows in block order
  /// (index 0 = coinbase, computed last but reported first).
  pub fn apply_block(&mut self, block: &Block) -> Vec<TxFlow> {
    let height = self.blocks;
    let mut flows: Vec<TxFlow> = vec![TxFlow::default(); block.txdata.len()];
    let mut fees: VecDeque<(u64, u64)> = VecDeque::new();
    let sub = subsidy(height);
    if sub > 0 {
      let s = first_sat(height);
      fees.push_back((s, s + sub));
    }
    for (i, tx) in block.txdata.iter().enumerate().skip(1) {
      let mut inputs: VecDeque<(u64, u64)> = VecDeque::new();
      let mut input_values = Vec::new();
      for txin in &tx.input {
        let out = self
          .utxos
          .remove(&txin.previous_output)
          .unwrap_or_else(|| panic!("reference model: input {} not unspent (generator bug)", txin.previous_output));
        input_values.push(out.value);
        inputs.extend(out.ranges);
      }
      let input_ranges: Ranges = inputs.iter().copied().collect();
      let total_out = self.place_outputs(tx, &mut inputs, height, false);
      fees.extend(inputs);
      flows[i] = TxFlow { txid: Some(tx.compute_txid()), input_ranges, input_values, total_out };
    }
    // coinbase last: subsidy, then fees in transaction order
    let coinbase = &block.txdata[0];
    let input_ranges: Ranges = fees.iter().copied().collect();
    let reward = total(&input_ranges);
    let total_out = self.place_outputs(coinbase, &mut fees, height, true);
    self.lost.extend(fees);
    flows[0] = TxFlow { txid: Some(coinbase.compute_txid()), input_ranges, input_values: vec![reward], total_out };
    self.blocks += 1;
    flows
  }

  fn place_outputs(&mut self, tx: &Transaction, inputs: &mut VecDeque<(u64, u64)>, height: u32, coinbase: bool) -> u64 {
    let txid = tx.compute_txid();
    let mut total_out = 0;
    for (vout, out) in tx.output.iter().enumerate() {
      let value = out.value.to_sat();
      total_out += value;
      let ranges = take(inputs, value);
      let outpoint = OutPoint { txid, vout: vout as u32 };
      let new = RefOut { value, script: out.script_pubkey.clone(), ranges, height, coinbase };
      if let Some(old) = self.utxos.insert(outpoint, new) {
        // duplicate txid: the earlier unspent output and its sats are gone
        self.destroyed.extend(old.ranges.iter().copied());
        self.displaced_outputs += 1;
        self.displaced_log.push((height, outpoint, old.ranges));
      }
    }
    total_out
  }

  /// Where is sat `s` now? (outpoint, offset) — the null outpoint for lost
  /// sats. Linear scan; use `SatIndex` for many lookups.
  pub fn sat_index(&self) -> SatIndex {
    let mut v = Vec::new();
    for (outpoint, out) in &self.utxos {
      let mut offset = 0;
      for (a, b) in &out.ranges {
        v.push((*a, *b, *outpoint, offset));
        offset += b - a;
      }
    }
    let mut offset = 0;
    for (a, b) in &self.lost {
      v.push((*a, *b, OutPoint::null(), offset));
      offset += b - a;
    }
    v.sort();
    SatIndex(v)
  }
}

pub struct SatIndex(pub Vec<(u64, u64, OutPoint, u64)>);

impl SatIndex {
  pub fn locate(&self, sat: u64) -> Option<(OutPoint, u64)> {
    let i = self.0.partition_point(|(a, _, _, _)| *a <= sat);
    if i == 0 {
      return None;
    }
    let (a, b, outpoint, offset) = self.0[i - 1];
    (sat < b).then(|| (outpoint, offset + sat - a))
  }
}

#[cfg(test)]
mod tests {
  use super::*;

  #[test]
  fn first_sats() {
    assert_eq!(first_sat(0), 0);
    assert_eq!(first_sat(1), 5_000_000_000);
    assert_eq!(first_sat(210_000), 1_050_000_000_000_000);
    assert_eq!(first_sat(210_001), 1_050_000_000_000_000 + 2_500_000_000);
  }
}
