//! RefInscriptions — inscriptions are attached to *sat numbers*: a new
//! inscription's sat is the sat at its position in the reveal's input stream
//! (start of its input, or its pointer when that lies inside the outputs);
//! afterwards it is wherever RefSats puts that sat. Unbound = revealed on a
//! zero-value input or carrying an unrecognised even field. Independent of
//! ord's offset/flotsam arithmetic, which never looks at sat numbers.
//!
//! Envelope *parsing* is ord's (`ParsedEnvelope::from_transaction`) — the
//! statements of C04/C05 are phrased in terms of it and C27 checks the parser.

use super::sats::{TxFlow, sat_at};
use bitcoin::{Block, Txid};
use ord::{InscriptionId, ParsedEnvelope};
use std::collections::{BTreeMap, BTreeSet, HashMap};

#[derive(Clone, Debug)]
pub struct RefInsc {
  pub id: InscriptionId,
  pub sat: Option<u64>,
  pub height: u32,
  pub tx_index: usize,
  pub input: u32,
  pub envelope_in_input: u32,
  /// its position went to fees in the reveal transaction
  pub fee_spent_at_reveal: bool,
  pub claimed_parents: Vec<InscriptionId>,
  /// inscriptions spent by (held in the inputs of) or revealed by the reveal
  pub eligible_parents: BTreeSet<InscriptionId>,
  /// an earlier inscription already sits on the same sat
  pub sat_had_earlier: bool,
  /// ... and every such earlier inscription reaches this transaction through
  /// an input *after* the one carrying this envelope (via a pointer)
  pub earlier_only_in_later_input: bool,
  /// parser flags, for reporting only
  pub flags: String,
}

#[derive(Clone, Default)]
pub struct RefInscriptions {
  pub list: Vec<RefInsc>,
  pub by_id: HashMap<InscriptionId, usize>,
  pub by_sat: BTreeMap<u64, Vec<usize>>,
  pub envelopes_per_tx: HashMap<Txid, u32>,
  pub per_height: BTreeMap<u32, Vec<usize>>,
  /// envelopes in blocks below this height are not inscriptions (ord starts
  /// indexing inscriptions at the network's first inscription height)
  pub first_height: u32,
}

impl RefInscriptions {
  pub fn in_ranges(&self, ranges: &[(u64, u64)]) -> Vec<InscriptionId> {
    let mut out = Vec::new();
    for (a, b) in ranges {
      for (_, idxs) in self.by_sat.range(*a..*b) {
        out.extend(idxs.iter().map(|i| self.list[*i].id));
      }
    }
    out
  }

  pub fn apply_block(&mut self, height: u32, block: &Block, flows: &[TxFlow]) {
    if height < self.first_height {
      return;
    }
    for (tx_index, tx) in block.txdata.iter().enumerate().skip(1) {
      let envelopes = ParsedEnvelope::from_transaction(tx);
      if envelopes.is_empty() {
        continue;
      }
      let flow = &flows[tx_index];
      let txid = tx.compute_txid();
      self.envelopes_per_tx.insert(txid, envelopes.len() as u32);
      let mut eligible: BTreeSet<InscriptionId> = self.in_ranges(&flow.input_ranges).into_iter().collect();
      for k in 0..envelopes.len() {
        eligible.insert(InscriptionId { txid, index: k as u32 });
      }
      for (k, env) in envelopes.iter().enumerate() {
        let i = env.input as usize;
        let input_start: u64 = flow.input_values[..i].iter().sum();
        let input_value = flow.input_values[i];
        let position = env.payload.pointer().filter(|p| *p < flow.total_out).unwrap_or(input_start);
        let unbound = input_value == 0 || env.payload.unrecognized_even_field;
        let sat = if unbound { None } else { sat_at(&flow.input_ranges, position) };
        let sat_had_earlier = sat.is_some_and(|s| self.by_sat.get(&s).is_some_and(|v| !v.is_empty()));
        // which input does the position fall into?
        let mut acc = 0u64;
        let mut position_input = flow.input_values.len();
        for (j, v) in flow.input_values.iter().enumerate() {
          if position < acc + v {
            position_input = j;
            break;
          }
          acc += v;
        }
        let same_tx_earlier = sat.is_some_and(|s| self.by_sat.get(&s).is_some_and(|v| v.iter().any(|i| self.list[*i].id.txid == txid)));
        let earlier_only_in_later_input = sat_had_earlier && !same_tx_earlier && position_input > i;
        let id = InscriptionId { txid, index: k as u32 };
        let idx = self.list.len();
        self.list.push(RefInsc {
          id,
          sat,
          height,
          tx_index,
          input: env.input,
          envelope_in_input: env.offset,
          fee_spent_at_reveal: position >= flow.total_out,
          claimed_parents: env.payload.parents(),
          eligible_parents: eligible.clone(),
          sat_had_earlier,
          earlier_only_in_later_input,
          flags: format!(
            "dup={} incomplete={} even={} pointer={:?} pushnum={} stutter={} zero_value_input={}",
            env.payload.duplicate_field,
            env.payload.incomplete_field,
            env.payload.unrecognized_even_field,
            env.payload.pointer(),
            env.pushnum,
            env.stutter,
            input_value == 0
          ),
        });
        self.by_id.insert(id, idx);
        if let Some(s) = sat {
          self.by_sat.entry(s).or_default().push(idx);
        }
        self.per_height.entry(height).or_default().push(idx);
      }
    }
  }
}
