//! RefRunes — the runes state machine written from
//! docs/src/runes/specification.md: entries, per-outpoint balances, the mint
//! rule, the edict loop, pointer / default output, cenotaph burn, the
//! commitment rule (taproot, >= 6 confirmations), reserved names. Uses its own
//! decipherer (props::c25::ref_decipher) and checked u128 arithmetic.

use super::sats::RefSats;
use crate::props::c25::{RefArtifact, RefEtching, ref_decipher};
use bitcoin::{Block, Network, OutPoint, Transaction, Txid};
use ordinals::{Height, Rune};
use std::collections::BTreeMap;

pub type RuneId = (u64, u32);

#[derive(Clone, Debug, PartialEq, Eq)]
pub struct RefRuneEntry {
  pub id: RuneId,
  pub rune: u128,
  pub number: u64,
  pub etching: Txid,
  pub divisibility: u8,
  pub premine: u128,
  pub spacers: u32,
  pub symbol: Option<char>,
  pub cap: Option<u128>,
  pub amount: Option<u128>,
  pub height: (Option<u64>, Option<u64>),
  pub offset: (Option<u64>, Option<u64>),
  pub has_terms: bool,
  pub turbo: bool,
  pub mints: u128,
  pub burned: u128,
  pub timestamp: u64,
  pub cenotaph: bool,
}

impl RefRuneEntry {
  pub fn start(&self) -> Option<u64> {
    if !self.has_terms {
      return None;
    }
    let relative = self.offset.0.map(|o| self.id.0.saturating_add(o));
    match (relative, self.height.0) {
      (Some(r), Some(a)) => Some(r.max(a)),
      (r, a) => r.or(a),
    }
  }

  pub fn end(&self) -> Option<u64> {
    if !self.has_terms {
      return None;
    }
    let relative = self.offset.1.map(|o| self.id.0.saturating_add(o));
    match (relative, self.height.1) {
      (Some(r), Some(a)) => Some(r.min(a)),
      (r, a) => r.or(a),
    }
  }

  /// amount minted by one mint at `height`, if the mint is open
  pub fn mintable(&self, height: u64) -> Option<u128> {
    if !self.has_terms {
      return None;
    }
    if self.start().is_some_and(|s| height < s) {
      return None;
    }
    if self.end().is_some_and(|e| height >= e) {
      return None;
    }
    if self.mints >= self.cap.unwrap_or(0) {
      return None;
    }
    Some(self.amount.unwrap_or(0))
  }
}

/// What one transaction did to runes (for per-transaction comparison with
/// the event stream).
#[derive(Clone, Debug, Default, PartialEq, Eq)]
pub struct TxRunes {
  pub txid: Option<Txid>,
  pub height: u32,
  pub etched: Option<RuneId>,
  pub minted: Option<(RuneId, u128)>,
  pub transferred: Vec<(OutPoint, RuneId, u128)>,
  pub burned: Vec<(RuneId, u128)>,
  pub cenotaph: bool,
}

#[derive(Clone)]
pub struct RefRunes {
  pub entries: BTreeMap<RuneId, RefRuneEntry>,
  pub by_name: BTreeMap<u128, RuneId>,
  pub by_txid: BTreeMap<Txid, u128>,
  pub balances: BTreeMap<OutPoint, BTreeMap<RuneId, u128>>,
  pub reserved: u64,
  pub first_rune_height: u32,
  pub network: Network,
  pub log: Vec<TxRunes>,
  pub keep_log: bool,
  /// etchings rejected, by reason (coverage)
  pub rejected: BTreeMap<&'static str, u64>,
}

impl Default for RefRunes {
  fn default() -> Self {
    RefRunes {
      entries: BTreeMap::new(),
      by_name: BTreeMap::new(),
      by_txid: BTreeMap::new(),
      balances: BTreeMap::new(),
      reserved: 0,
      first_rune_height: 0,
      network: Network::Regtest,
      log: Vec::new(),
      keep_log: true,
      rejected: BTreeMap::new(),
    }
  }
}

const RESERVED: u128 = 6402364363415443603228541259936211926;

fn is_op_return(tx: &Transaction, vout: usize) -> bool {
  tx.output[vout].script_pubkey.as_bytes().first() == Some(&0x6a)
}

fn is_p2tr(script: &[u8]) -> bool {
  script.len() == 34 && script[0] == 0x51 && script[1] == 0x20
}

/// Leaf script of a (purported) taproot script-path witness: at least two
/// elements; a last element starting with 0x50 is an annex (when there are at
/// least three); the script is the element before the control block.
pub fn tapscript_of(witness: &bitcoin::Witness) -> Option<Vec<u8>> {
  let items: Vec<&[u8]> = witness.iter().collect();
  let n = items.len();
  if n < 2 {
    return None;
  }
  let has_annex = n >= 3 && items[n - 1].first() == Some(&0x50);
  let pos = if has_annex { n - 3 } else { n - 2 };
  Some(items[pos].to_vec())
}

/// Data pushes of a script, stopping at the first malformed push.
pub fn pushes(script: &[u8]) -> Vec<Vec<u8>> {
  let mut out = Vec::new();
  let mut i = 0;
  while i < script.len() {
    let op = script[i];
    i += 1;
    let len = match op {
      0..=75 => op as usize,
      76 => {
        if i + 1 > script.len() {
          return out;
        }
        let l = script[i] as usize;
        i += 1;
        l
      }
      77 => {
        if i + 2 > script.len() {
          return out;
        }
        let l = u16::from_le_bytes([script[i], script[i + 1]]) as usize;
        i += 2;
        l
      }
      78 => {
        if i + 4 > script.len() {
          return out;
        }
        let l = u32::from_le_bytes([script[i], script[i + 1], script[i + 2], script[i + 3]]) as usize;
        i += 4;
        l
      }
      _ => continue, // not a push
    };
    if script.len() - i < len {
      return out;
    }
    out.push(script[i..i + len].to_vec());
    i += len;
  }
  out
}

pub fn commitment_of(rune: u128) -> Vec<u8> {
  let mut v = rune.to_le_bytes().to_vec();
  while v.last() == Some(&0) {
    v.pop();
  }
  v
}

impl RefRunes {
  /// Does `tx` (in a block at `height`) commit to `rune`? Some input's
  /// tapscript pushes the commitment while spending a taproot output with at
  /// least six confirmations. `created_in_block` maps outputs created
  /// earlier in this block (one confirmation) to their scripts.
  fn commits(&self, tx: &Transaction, rune: u128, height: u32, sats: &RefSats) -> bool {
    let commitment = commitment_of(rune);
    for input in &tx.input {
      let Some(script) = tapscript_of(&input.witness) else { continue };
      if !pushes(&script).iter().any(|p| *p == commitment) {
        continue;
      }
      // the output being spent, as of the start of this block
      let Some(prev) = sats.utxos.get(&input.previous_output) else {
        continue; // created in this very block: one confirmation
      };
      if !is_p2tr(prev.script.as_bytes()) {
        continue;
      }
      let confirmations = height - prev.height + 1;
      if confirmations >= 6 {
        return true;
      }
    }
    false
  }

  pub fn apply_block(&mut self, height: u32, block: &Block, sats: &RefSats) {
    if height < self.first_rune_height {
      return;
    }
    let minimum = Rune::minimum_at_height(self.network, Height(height)).0;
    let mut burned_in_block: BTreeMap<RuneId, u128> = BTreeMap::new();
    for (tx_index, tx) in block.txdata.iter().enumerate() {
      let txid = tx.compute_txid();
      let artifact = ref_decipher(tx);
      let mut log = TxRunes { txid: Some(txid), height, ..Default::default() };
      // unallocated = runes of the inputs
      let mut unallocated: BTreeMap<RuneId, u128> = BTreeMap::new();
      for input in &tx.input {
        if let Some(b) = self.balances.remove(&input.previous_output) {
          for (id, amount) in b {
            let e = unallocated.entry(id).or_default();
            *e = e.checked_add(amount).expect("reference: balance overflow");
          }
        }
      }
      let n_out = tx.output.len();
      let mut allocated: Vec<BTreeMap<RuneId, u128>> = vec![BTreeMap::new(); n_out];
      let mut is_cenotaph = false;
      if let Some(artifact) = &artifact {
        let (mint, etching_name, etching_full, edicts, _pointer): (Option<RuneId>, Option<Option<u128>>, Option<&RefEtching>, &[crate::props::c25::RefEdict], Option<u32>) = match artifact {
          RefArtifact::Runestone { edicts, etching, mint, pointer } => (*mint, etching.as_ref().map(|e| e.rune), etching.as_ref(), edicts.as_slice(), *pointer),
          RefArtifact::Cenotaph { etching, mint, .. } => {
            is_cenotaph = true;
            // a cenotaph etches only a named rune
            (*mint, etching.map(Some), None, &[][..], None)
          }
        };
        log.cenotaph = is_cenotaph;
        // mint
        if let Some(id) = mint
          && let Some(entry) = self.entries.get_mut(&id)
          && let Some(amount) = entry.mintable(height.into())
        {
          entry.mints += 1;
          let e = unallocated.entry(id).or_default();
          *e = e.checked_add(amount).expect("reference: mint overflow");
          log.minted = Some((id, amount));
        }
        // etching
        let mut etched: Option<(RuneId, u128)> = None;
        if let Some(name) = etching_name {
          let id = (u64::from(height), tx_index as u32);
          match name {
            Some(rune) => {
              let reason = if rune < minimum {
                Some("below-minimum")
              } else if rune >= RESERVED {
                Some("reserved")
              } else if self.by_name.contains_key(&rune) {
                Some("taken")
              } else if !self.commits(tx, rune, height, sats) {
                Some("no-valid-commitment")
              } else {
                None
              };
              match reason {
                Some(r) => *self.rejected.entry(r).or_default() += 1,
                None => etched = Some((id, rune)),
              }
            }
            None => {
              // only reachable for runestones (cenotaphs carry Some(name) or nothing)
              self.reserved += 1;
              etched = Some((id, RESERVED + ((u128::from(height) << 32) | tx_index as u128)));
            }
          }
        }
        if !is_cenotaph {
          if let (Some((id, _)), Some(e)) = (etched, etching_full) {
            let u = unallocated.entry(id).or_default();
            *u = u.checked_add(e.premine.unwrap_or(0)).expect("reference: premine overflow");
          }
          for edict in edicts {
            let id = if edict.id == (0, 0) {
              match etched {
                Some((id, _)) => id,
                None => continue,
              }
            } else {
              edict.id
            };
            let Some(balance) = unallocated.get_mut(&id) else { continue };
            let output = edict.output as usize;
            let mut give = |balance: &mut u128, amount: u128, output: usize| {
              if amount > 0 {
                *balance -= amount;
                *allocated[output].entry(id).or_default() += amount;
              }
            };
            if output == n_out {
              let dest: Vec<usize> = (0..n_out).filter(|o| !is_op_return(tx, *o)).collect();
              if dest.is_empty() {
                continue;
              }
              if edict.amount == 0 {
                let share = *balance / dest.len() as u128;
                let rem = (*balance % dest.len() as u128) as usize;
                for (i, o) in dest.iter().enumerate() {
                  give(balance, if i < rem { share + 1 } else { share }, *o);
                }
              } else {
                for o in dest {
                  let a = edict.amount.min(*balance);
                  give(balance, a, o);
                }
              }
            } else {
              let a = if edict.amount == 0 { *balance } else { edict.amount.min(*balance) };
              give(balance, a, output);
            }
          }
        }
        if let Some((id, rune)) = etched {
          let number = self.entries.len() as u64;
          let entry = match (is_cenotaph, etching_full) {
            (false, Some(e)) => RefRuneEntry {
              id,
              rune,
              number,
              etching: txid,
              divisibility: e.divisibility.unwrap_or(0),
              premine: e.premine.unwrap_or(0),
              spacers: e.spacers.unwrap_or(0),
              symbol: e.symbol,
              cap: e.terms.as_ref().and_then(|t| t.cap),
              amount: e.terms.as_ref().and_then(|t| t.amount),
              height: e.terms.as_ref().map(|t| t.height).unwrap_or_default(),
              offset: e.terms.as_ref().map(|t| t.offset).unwrap_or_default(),
              has_terms: e.terms.is_some(),
              turbo: e.turbo,
              mints: 0,
              burned: 0,
              timestamp: block.header.time.into(),
              cenotaph: false,
            },
            _ => RefRuneEntry {
              id,
              rune,
              number,
              etching: txid,
              divisibility: 0,
              premine: 0,
              spacers: 0,
              symbol: None,
              cap: None,
              amount: None,
              height: (None, None),
              offset: (None, None),
              has_terms: false,
              turbo: false,
              mints: 0,
              burned: 0,
              timestamp: block.header.time.into(),
              cenotaph: true,
            },
          };
          self.entries.insert(id, entry);
          self.by_name.insert(rune, id);
          self.by_txid.insert(txid, rune);
          log.etched = Some(id);
        }
      }
      // leftovers
      let mut burned: BTreeMap<RuneId, u128> = BTreeMap::new();
      if is_cenotaph {
        for (id, amount) in unallocated {
          *burned.entry(id).or_default() += amount;
        }
      } else {
        let pointer = match &artifact {
          Some(RefArtifact::Runestone { pointer, .. }) => *pointer,
          _ => None,
        };
        let default = pointer.map(|p| p as usize).or_else(|| (0..n_out).find(|o| !is_op_return(tx, *o)));
        for (id, amount) in unallocated {
          if amount == 0 {
            continue;
          }
          match default {
            Some(o) => *allocated[o].entry(id).or_default() += amount,
            None => *burned.entry(id).or_default() += amount,
          }
        }
      }
      for (vout, balances) in allocated.into_iter().enumerate() {
        if balances.is_empty() {
          continue;
        }
        if is_op_return(tx, vout) {
          for (id, amount) in balances {
            *burned.entry(id).or_default() += amount;
          }
          continue;
        }
        let outpoint = OutPoint { txid, vout: vout as u32 };
        for (id, amount) in &balances {
          log.transferred.push((outpoint, *id, *amount));
        }
        self.balances.insert(outpoint, balances);
      }
      for (id, amount) in burned {
        *burned_in_block.entry(id).or_default() += amount;
        log.burned.push((id, amount));
      }
      if self.keep_log && (artifact.is_some() || !log.transferred.is_empty() || !log.burned.is_empty()) {
        self.log.push(log);
      }
    }
    for (id, amount) in burned_in_block {
      let e = self.entries.get_mut(&id).expect("reference: burned rune without entry");
      e.burned = e.burned.checked_add(amount).expect("reference: burned overflow");
    }
  }
}
