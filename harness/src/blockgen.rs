//! Block generator. Emits only blocks that satisfy the consensus rules ord
//! relies on: inputs exist and are unspent on the active chain, topological
//! order, sum(out) <= sum(in), coinbase <= subsidy + fees, at least one input
//! and one output, no duplicate inputs. Scripts are not executed.

use crate::{model::Model, model::sats, rng::Rng};
use bitcoin::{
  Amount, OutPoint, ScriptBuf, Sequence, Transaction, TxIn, TxOut, Witness, absolute::LockTime, transaction::Version,
};

#[derive(Clone, Debug)]
pub struct GenCfg {
  /// class weights: transfer, reveal, rune
  pub w_transfer: u64,
  pub w_reveal: u64,
  pub w_rune: u64,
  /// weight of the adversarial class (robustness runs)
  pub w_adversarial: u64,
  /// probability (per mille) that a coinbase is a byte-identical repeat of an earlier one
  pub dup_coinbase_permille: u64,
  /// blocks before a coinbase output may be spent (>= 1)
  pub maturity: u32,
  pub max_txs: usize,
  /// soft cap on the utxo set; above it transactions consolidate
  pub utxo_target: usize,
  /// allow OP_RETURN outputs carrying value / zero-value outputs
  pub odd_outputs: bool,
}

impl Default for GenCfg {
  fn default() -> Self {
    GenCfg { w_transfer: 10, w_reveal: 0, w_rune: 0, w_adversarial: 0, dup_coinbase_permille: 0, maturity: 1, max_txs: 6, utxo_target: 120, odd_outputs: true }
  }
}

/// A spendable output as the generator sees it.
#[derive(Clone, Debug)]
pub struct Avail {
  pub outpoint: OutPoint,
  pub value: u64,
  pub script: ScriptBuf,
  pub same_block: bool,
  pub interesting: bool, // holds inscriptions or runes in the model
  pub height: u32,
}

pub struct Gen {
  pub cfg: GenCfg,
  pub scripts: Vec<ScriptBuf>,
  pub op_returns: Vec<ScriptBuf>,
  /// coinbases emitted so far (height, tx), candidates for duplication
  pub coinbases: Vec<(u32, Transaction)>,
  pub extra: crate::gen_insc::InscGen,
  pub runes: crate::gen_runes::RuneGen,
}

pub fn p2tr_script(tag: u8) -> ScriptBuf {
  // OP_1 <32 bytes>; the key need not be on the curve for ord (nothing is executed)
  let mut v = vec![0x51, 0x20];
  v.extend([tag; 32]);
  v[2] = 0x02; // keep the x coordinate shape varied but deterministic
  ScriptBuf::from_bytes(v)
}

pub fn p2wpkh_script(tag: u8) -> ScriptBuf {
  let mut v = vec![0x00, 0x14];
  v.extend([tag; 20]);
  ScriptBuf::from_bytes(v)
}

impl Gen {
  pub fn new(cfg: GenCfg) -> Gen {
    let mut scripts = Vec::new();
    for t in 1..=5u8 {
      scripts.push(p2tr_script(t));
      scripts.push(p2wpkh_script(t));
    }
    // P2PKH, P2SH, bare/odd scripts and the empty script
    scripts.push(ScriptBuf::from_bytes([vec![0x76, 0xa9, 0x14], vec![7u8; 20], vec![0x88, 0xac]].concat()));
    scripts.push(ScriptBuf::from_bytes([vec![0xa9, 0x14], vec![9u8; 20], vec![0x87]].concat()));
    scripts.push(ScriptBuf::from_bytes(vec![0x51]));
    scripts.push(ScriptBuf::new());
    let op_returns = vec![
      ScriptBuf::from_bytes(vec![0x6a]),
      ScriptBuf::from_bytes(vec![0x6a, 0x01, 0x42]),
      ScriptBuf::from_bytes(vec![0x6a, 0x4c]), // OP_RETURN + truncated push
    ];
    Gen { cfg, scripts, op_returns, coinbases: Vec::new(), extra: Default::default(), runes: Default::default() }
  }

  pub fn script(&self, rng: &mut Rng) -> ScriptBuf {
    // few scripts reused heavily
    if rng.chance(7, 10) { self.scripts[rng.below(4) as usize].clone() } else { rng.pick(&self.scripts).clone() }
  }

  /// Spendable outputs at the start of a block at `height`.
  pub fn available(&self, model: &Model, height: u32) -> Vec<Avail> {
    model
      .sats
      .utxos
      .iter()
      .filter(|(_, o)| !o.script.is_op_return())
      // the genesis coinbase output is not in the node's UTXO set: unspendable
      .filter(|(_, o)| o.height > 0)
      .filter(|(_, o)| !o.coinbase || o.height + self.cfg.maturity.max(1) <= height)
      .map(|(op, o)| Avail {
        outpoint: *op,
        value: o.value,
        script: o.script.clone(),
        same_block: false,
        interesting: model.is_interesting(op),
        height: o.height,
      })
      .collect()
  }

  pub fn pick_inputs(&self, rng: &mut Rng, avail: &mut Vec<Avail>, n: usize, exclude_zero: bool) -> Vec<Avail> {
    let mut picked = Vec::new();
    for _ in 0..n {
      if avail.is_empty() {
        break;
      }
      // bias towards interesting and same-block outputs
      let mut idx = rng.below(avail.len() as u64) as usize;
      for _ in 0..3 {
        let a = &avail[idx];
        if a.interesting || a.same_block || rng.chance(1, 3) {
          break;
        }
        idx = rng.below(avail.len() as u64) as usize;
      }
      if exclude_zero && avail[idx].value == 0 {
        continue;
      }
      picked.push(avail.swap_remove(idx));
    }
    picked
  }

  /// Split `total` into `n` output values (zeros allowed), keeping `fee`.
  pub fn split_values(&self, rng: &mut Rng, total: u64, n: usize, fee_mode: u64) -> (Vec<u64>, u64) {
    let fee = match fee_mode {
      0 => 0,
      1 => rng.below(total.min(10_000) + 1),
      2 => total,
      3 => rng.below(total + 1),
      _ => total / 2,
    };
    let spend = total - fee;
    let mut cuts: Vec<u64> = (0..n.saturating_sub(1)).map(|_| rng.below(spend + 1)).collect();
    cuts.sort();
    let mut values = Vec::new();
    let mut prev = 0;
    for c in cuts {
      values.push(c - prev);
      prev = c;
    }
    values.push(spend - prev);
    if !self.cfg.odd_outputs {
      // no zero-value outputs: move a sat from fee or neighbours where possible
      for v in values.iter_mut() {
        if *v == 0 {
          *v = 0; // left as is; callers that disallow zero filter themselves
        }
      }
    }
    (values, fee)
  }

  pub fn transfer(&self, rng: &mut Rng, avail: &mut Vec<Avail>, consolidate: bool) -> Option<Transaction> {
    let n_in = if consolidate { rng.usize(2, 5) } else { *rng.pick(&[1usize, 1, 1, 2, 2, 3, 4]) };
    let inputs = self.pick_inputs(rng, avail, n_in, false);
    if inputs.is_empty() {
      return None;
    }
    let total: u64 = inputs.iter().map(|a| a.value).sum();
    let n_out = if consolidate { 1 } else { *rng.pick(&[1usize, 1, 2, 2, 2, 3, 4]) };
    let fee_mode = *rng.pick(&[0u64, 0, 1, 1, 1, 2, 3, 4]);
    let (values, _fee) = self.split_values(rng, total, n_out, fee_mode);
    let mut output: Vec<TxOut> = values.iter().map(|v| TxOut { value: Amount::from_sat(*v), script_pubkey: self.script(rng) }).collect();
    if self.cfg.odd_outputs && rng.chance(1, 5) {
      // turn one output into an OP_RETURN (with whatever value it had), or insert a zero-value one
      let s = rng.pick(&self.op_returns).clone();
      if rng.chance(1, 2) {
        let i = rng.below(output.len() as u64) as usize;
        output[i].script_pubkey = s;
      } else {
        let i = rng.usize(0, output.len());
        output.insert(i, TxOut { value: Amount::ZERO, script_pubkey: s });
      }
    }
    Some(self.finish(inputs, output, Vec::new()))
  }

  pub fn finish(&self, inputs: Vec<Avail>, output: Vec<TxOut>, witnesses: Vec<Witness>) -> Transaction {
    Transaction {
      version: Version(2),
      lock_time: LockTime::ZERO,
      input: inputs
        .iter()
        .enumerate()
        .map(|(i, a)| TxIn {
          previous_output: a.outpoint,
          script_sig: ScriptBuf::new(),
          sequence: Sequence::MAX,
          witness: witnesses.get(i).cloned().unwrap_or_default(),
        })
        .collect(),
      output,
    }
  }

  pub fn coinbase(&mut self, rng: &mut Rng, height: u32, fees: u64, spent_in_block: &[OutPoint], model: &Model) -> Transaction {
    let reward = sats::subsidy(height) + fees;
    // byte-identical repeat of an earlier coinbase (duplicate txid)
    if self.cfg.dup_coinbase_permille > 0 && !self.coinbases.is_empty() && rng.below(1000) < self.cfg.dup_coinbase_permille {
      let (_, old) = rng.pick(&self.coinbases).clone();
      let claimed: u64 = old.output.iter().map(|o| o.value.to_sat()).sum();
      let txid = old.compute_txid();
      let touches_spent = spent_in_block.iter().any(|o| o.txid == txid);
      if claimed <= reward && !touches_spent && !model.txid_is_interesting(&txid) {
        return old;
      }
    }
    let mode = rng.below(10);
    let claim = match mode {
      0 => 0,
      1 => rng.below(reward + 1),
      2 => reward.saturating_sub(rng.below(1000)),
      3 => sats::subsidy(height).min(reward), // leaves the fees unclaimed
      _ => reward,
    };
    let n_out = *rng.pick(&[1usize, 1, 1, 2, 3]);
    let (values, _) = self.split_values(rng, claim, n_out, 0);
    let mut output: Vec<TxOut> = values.iter().map(|v| TxOut { value: Amount::from_sat(*v), script_pubkey: self.script(rng) }).collect();
    if self.cfg.odd_outputs && rng.chance(1, 6) {
      let i = rng.usize(0, output.len());
      output.insert(i, TxOut { value: Amount::ZERO, script_pubkey: rng.pick(&self.op_returns).clone() });
    }
    let mut script_sig = vec![0x03];
    script_sig.extend(&height.to_le_bytes()[..3]);
    script_sig.extend(rng.bytes(4));
    let tx = Transaction {
      version: Version(2),
      lock_time: LockTime::ZERO,
      input: vec![TxIn {
        previous_output: OutPoint::null(),
        script_sig: ScriptBuf::from_bytes(script_sig),
        sequence: Sequence::MAX,
        witness: Witness::from_slice(&[[0u8; 32]]),
      }],
      output,
    };
    if self.coinbases.len() < 64 {
      self.coinbases.push((height, tx.clone()));
    } else {
      let i = rng.below(64) as usize;
      self.coinbases[i] = (height, tx.clone());
    }
    tx
  }

  /// Build the transactions of the next block (coinbase first).
  pub fn block(&mut self, rng: &mut Rng, model: &Model, height: u32) -> Vec<Transaction> {
    let mut avail = self.available(model, height);
    let mut txs: Vec<Transaction> = Vec::new();
    let mut fees = 0u64;
    let mut spent: Vec<OutPoint> = Vec::new();
    let n_txs = match rng.below(8) {
      0 => 0,
      1 => 1,
      _ => rng.usize(1, self.cfg.max_txs),
    };
    for _ in 0..n_txs {
      let consolidate = avail.len() > self.cfg.utxo_target && rng.chance(2, 3);
      let class = rng.weighted(&[self.cfg.w_transfer, self.cfg.w_reveal, self.cfg.w_rune, self.cfg.w_adversarial]);
      let tx = match class {
        0 => self.transfer(rng, &mut avail, consolidate),
        1 => crate::gen_insc::reveal(self, rng, &mut avail, model, height),
        2 => crate::gen_runes::rune_tx(self, rng, &mut avail, model, height, txs.len() as u32 + 1),
        _ => crate::gen_insc::adversarial(self, rng, &mut avail, model, height),
      };
      let Some(tx) = tx else { continue };
      let total_in: u64 = tx
        .input
        .iter()
        .map(|i| {
          model
            .sats
            .utxos
            .get(&i.previous_output)
            .map(|o| o.value)
            .or_else(|| txs.iter().find(|t| t.compute_txid() == i.previous_output.txid).map(|t| t.output[i.previous_output.vout as usize].value.to_sat()))
            .expect("generator: unknown input")
        })
        .sum();
      let total_out: u64 = tx.output.iter().map(|o| o.value.to_sat()).sum();
      assert!(total_out <= total_in, "generator produced an inflating transaction");
      fees += total_in - total_out;
      spent.extend(tx.input.iter().map(|i| i.previous_output));
      // outputs are spendable by later transactions of this block
      let txid = tx.compute_txid();
      for (vout, out) in tx.output.iter().enumerate() {
        if !out.script_pubkey.is_op_return() {
          avail.push(Avail {
            outpoint: OutPoint { txid, vout: vout as u32 },
            value: out.value.to_sat(),
            script: out.script_pubkey.clone(),
            same_block: true,
            interesting: false,
            height,
          });
        }
      }
      txs.push(tx);
    }
    let coinbase = self.coinbase(rng, height, fees, &spent, model);
    let mut txdata = vec![coinbase];
    txdata.extend(txs);
    txdata
  }
}
