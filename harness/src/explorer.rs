//! In-process explorer: the real `Server::run` on the real `Index`, plus a raw
//! HTTP/1.1 client (no automatic Accept-Encoding, no transparent decoding),
//! so that the monitors see exactly the bytes and headers ord sends.

use crate::{idx::IndexCfg, node::Node};
use ord::Index;
use std::{
  io::{Read, Write},
  net::TcpStream,
  path::Path,
  sync::Arc,
  time::Duration,
};

pub struct Explorer {
  pub index: Arc<Index>,
  pub port: u16,
  pub handle: axum_server::Handle<std::net::SocketAddr>,
  pub settings_hidden: Vec<ord::InscriptionId>,
}

#[derive(Debug, Clone)]
pub struct Response {
  pub status: u16,
  pub headers: Vec<(String, String)>,
  pub body: Vec<u8>,
}

impl Response {
  pub fn header(&self, name: &str) -> Option<&str> {
    self.headers.iter().find(|(k, _)| k.eq_ignore_ascii_case(name)).map(|(_, v)| v.as_str())
  }

  pub fn headers_named(&self, name: &str) -> Vec<&str> {
    self.headers.iter().filter(|(k, _)| k.eq_ignore_ascii_case(name)).map(|(_, v)| v.as_str()).collect()
  }

  pub fn json<T: serde::de::DeserializeOwned>(&self) -> Result<T, String> {
    serde_json::from_slice(&self.body).map_err(|e| format!("{e}: {}", String::from_utf8_lossy(&self.body[..self.body.len().min(300)])))
  }
}

impl Explorer {
  /// Open the index under `cfg`, bring it to the node's tip, and serve it.
  /// `server_args` are appended after `server` (e.g. `--csp-origin X`).
  pub fn start(node: &Node, dir: &Path, cfg: &IndexCfg, extra_ord_args: &[String], server_args: &[String]) -> anyhow::Result<Explorer> {
    let mut args = cfg.args(node, dir);
    args.extend(extra_ord_args.iter().cloned());
    args.push("server".into());
    args.extend(["--http-port".into(), "0".into(), "--address".into(), "127.0.0.1".into(), "--no-sync".into()]);
    args.extend(server_args.iter().cloned());
    if args.iter().any(|a| a.contains(char::is_whitespace)) {
      anyhow::bail!("argument with whitespace cannot be passed through parse_ord_server_args");
    }
    let (settings, server) = ord::parse_ord_server_args(&args.join(" "));
    let index = Arc::new(Index::open(&settings)?);
    index.update()?;
    let handle = axum_server::Handle::new();
    let (tx, rx) = std::sync::mpsc::channel();
    {
      let index = index.clone();
      let handle = handle.clone();
      std::thread::spawn(move || {
        if let Err(e) = server.run(settings, index, handle, Some(tx)) {
          eprintln!("server ended: {e}");
        }
      });
    }
    let port = rx.recv_timeout(Duration::from_secs(60)).map_err(|_| anyhow::anyhow!("server did not report its port"))?;
    Ok(Explorer { index, port, handle, settings_hidden: Vec::new() })
  }

  pub fn stop(&self) {
    self.handle.shutdown();
  }

  pub fn get(&self, path: &str, headers: &[(&str, &str)]) -> Result<Response, String> {
    self.request("GET", path, headers, None)
  }

  pub fn get_json(&self, path: &str) -> Result<Response, String> {
    self.request("GET", path, &[("Accept", "application/json")], None)
  }

  pub fn post_json(&self, path: &str, body: &str) -> Result<Response, String> {
    self.request("POST", path, &[("Accept", "application/json"), ("Content-Type", "application/json")], Some(body.as_bytes()))
  }

  pub fn request(&self, method: &str, path: &str, headers: &[(&str, &str)], body: Option<&[u8]>) -> Result<Response, String> {
    let mut stream = TcpStream::connect(("127.0.0.1", self.port)).map_err(|e| format!("connect: {e}"))?;
    stream.set_nodelay(true).ok();
    stream.set_read_timeout(Some(Duration::from_secs(60))).ok();
    let mut req = format!("{method} {path} HTTP/1.1\r\nHost: 127.0.0.1:{}\r\nConnection: close\r\n", self.port);
    for (k, v) in headers {
      req.push_str(&format!("{k}: {v}\r\n"));
    }
    if let Some(b) = body {
      req.push_str(&format!("Content-Length: {}\r\n", b.len()));
    }
    req.push_str("\r\n");
    let mut bytes = req.into_bytes();
    if let Some(b) = body {
      bytes.extend_from_slice(b);
    }
    stream.write_all(&bytes).map_err(|e| format!("write: {e}"))?;
    let mut raw = Vec::new();
    stream.read_to_end(&mut raw).map_err(|e| format!("read: {e}"))?;
    parse_response(&raw)
  }
}

fn parse_response(raw: &[u8]) -> Result<Response, String> {
  let split = raw.windows(4).position(|w| w == b"\r\n\r\n").ok_or_else(|| format!("no header terminator in {} bytes (connection dropped?)", raw.len()))?;
  let head = String::from_utf8_lossy(&raw[..split]).to_string();
  let mut lines = head.split("\r\n");
  let status_line = lines.next().unwrap_or("");
  let status: u16 = status_line.split(' ').nth(1).and_then(|s| s.parse().ok()).ok_or_else(|| format!("bad status line {status_line:?}"))?;
  let headers: Vec<(String, String)> = lines.filter_map(|l| l.split_once(':').map(|(k, v)| (k.trim().to_string(), v.trim().to_string()))).collect();
  let mut body = raw[split + 4..].to_vec();
  let chunked = headers.iter().any(|(k, v)| k.eq_ignore_ascii_case("transfer-encoding") && v.to_ascii_lowercase().contains("chunked"));
  if chunked {
    let mut out = Vec::new();
    let mut rest = &body[..];
    loop {
      let Some(eol) = rest.windows(2).position(|w| w == b"\r\n") else { break };
      let size = usize::from_str_radix(String::from_utf8_lossy(&rest[..eol]).split(';').next().unwrap_or("").trim(), 16).map_err(|e| format!("chunk size: {e}"))?;
      rest = &rest[eol + 2..];
      if size == 0 {
        break;
      }
      if rest.len() < size {
        return Err("truncated chunk".into());
      }
      out.extend_from_slice(&rest[..size]);
      rest = &rest[(size + 2).min(rest.len())..];
    }
    body = out;
  } else if let Some(len) = headers.iter().find(|(k, _)| k.eq_ignore_ascii_case("content-length")).and_then(|(_, v)| v.parse::<usize>().ok())
    && body.len() != len
  {
    return Err(format!("body has {} bytes, Content-Length says {len}", body.len()));
  }
  Ok(Response { status, headers, body })
}
