//! Per-shard result: what the monitors observed. The python runner merges
//! shard reports into /verif/evidence/<id>.json and decides the exit code.

use serde_json::{Value, json};
use std::{
  collections::{BTreeMap, BTreeSet},
  hash::{Hash, Hasher},
};

pub const MAX_DISTINCT: usize = 300_000;
pub const MAX_SAMPLES: usize = 4;
pub const MAX_PER_SIGNATURE: usize = 3;
pub fn max_per_signature() -> usize {
  std::env::var("VERIF_MAX_PER_SIGNATURE").ok().and_then(|v| v.parse().ok()).unwrap_or(MAX_PER_SIGNATURE)
}

#[derive(Default)]
pub struct Report {
  pub property: String,
  pub evaluations: u64,
  pub distinct: BTreeSet<u64>,
  pub counters: BTreeMap<String, u64>,
  pub sets: BTreeMap<String, BTreeSet<String>>,
  pub samples: Vec<Value>,
  pub violations: Vec<Value>,
  pub per_signature: BTreeMap<String, usize>,
  pub inconclusive: Vec<String>,
  pub observations: Vec<String>,
}

pub fn hash_of<T: Hash>(t: &T) -> u64 {
  // FNV-1a based, stable across runs and builds (unlike DefaultHasher's keys).
  struct Fnv(u64);
  impl Hasher for Fnv {
    fn finish(&self) -> u64 {
      self.0
    }
    fn write(&mut self, bytes: &[u8]) {
      for b in bytes {
        self.0 ^= u64::from(*b);
        self.0 = self.0.wrapping_mul(0x100000001b3);
      }
    }
  }
  let mut h = Fnv(0xcbf29ce484222325);
  t.hash(&mut h);
  h.finish()
}

impl Report {
  pub fn new(property: &str) -> Self {
    Report {
      property: property.into(),
      ..Default::default()
    }
  }

  pub fn eval(&mut self) {
    self.evaluations += 1;
  }

  pub fn evals(&mut self, n: u64) {
    self.evaluations += n;
  }

  /// Record a non-trivial case by its abstract shape (anything hashable).
  pub fn distinct<T: Hash>(&mut self, shape: &T) {
    if self.distinct.len() < MAX_DISTINCT {
      self.distinct.insert(hash_of(shape));
    }
  }

  pub fn count(&mut self, key: &str) {
    *self.counters.entry(key.into()).or_default() += 1;
  }

  pub fn add(&mut self, key: &str, n: u64) {
    *self.counters.entry(key.into()).or_default() += n;
  }

  pub fn max(&mut self, key: &str, n: u64) {
    let e = self.counters.entry(key.into()).or_default();
    *e = (*e).max(n);
  }

  /// Record membership of a small named set (e.g. crash points hit).
  pub fn seen(&mut self, set: &str, member: impl Into<String>) {
    let s = self.sets.entry(set.into()).or_default();
    if s.len() < 2000 {
      s.insert(member.into());
    }
  }

  pub fn sample(&mut self, v: Value) {
    if self.samples.len() < MAX_SAMPLES {
      self.samples.push(v);
    }
  }

  pub fn want_sample(&self) -> bool {
    self.samples.len() < MAX_SAMPLES
  }

  /// A violation of the property. `signature` is the minimal stable
  /// description of *what fails*; `replay` must hold everything needed to
  /// re-run the case.
  pub fn violation(&mut self, signature: &str, detail: String, replay: Value) {
    let n = self.per_signature.entry(signature.into()).or_default();
    *n += 1;
    if *n <= max_per_signature() {
      self.violations.push(json!({
        "signature": signature,
        "detail": detail,
        "replay": replay,
      }));
    }
  }

  pub fn inconclusive(&mut self, reason: impl Into<String>) {
    if self.inconclusive.len() < 50 {
      self.inconclusive.push(reason.into());
    }
  }

  pub fn observe(&mut self, note: impl Into<String>) {
    if self.observations.len() < 50 {
      self.observations.push(note.into());
    }
  }

  pub fn to_json(&self) -> Value {
    json!({
      "property": self.property,
      "evaluations": self.evaluations,
      "distinct": self.distinct.iter().collect::<Vec<_>>(),
      "counters": self.counters,
      "sets": self.sets,
      "samples": self.samples,
      "violations": self.violations,
      "violation_counts": self.per_signature,
      "inconclusive": self.inconclusive,
      "observations": self.observations,
    })
  }

  pub fn write(&self, path: &str) {
    let tmp = format!("{path}.tmp");
    std::fs::write(&tmp, serde_json::to_vec(&self.to_json()).unwrap()).unwrap();
    std::fs::rename(&tmp, path).unwrap();
  }
}

thread_local! {
  pub static CATCH_DEPTH: std::cell::Cell<u32> = const { std::cell::Cell::new(0) };
  pub static LAST_PANIC_LOCATION: std::cell::RefCell<String> = const { std::cell::RefCell::new(String::new()) };
}

/// Run `f`, turning a panic into `Err("message @ file:line")`.
pub fn catch<T>(f: impl FnOnce() -> T) -> Result<T, String> {
  CATCH_DEPTH.with(|c| c.set(c.get() + 1));
  let r = std::panic::catch_unwind(std::panic::AssertUnwindSafe(f));
  CATCH_DEPTH.with(|c| c.set(c.get() - 1));
  match r {
    Ok(t) => Ok(t),
    Err(e) => {
      let loc = LAST_PANIC_LOCATION.with(|c| c.borrow().clone());
      Err(format!("{} @ {}", payload_message(e.as_ref()), loc))
    }
  }
}

pub fn payload_message(e: &(dyn std::any::Any + Send)) -> String {
  if let Some(s) = e.downcast_ref::<&str>() {
    s.to_string()
  } else if let Some(s) = e.downcast_ref::<String>() {
    s.clone()
  } else {
    "panic with non-string payload".into()
  }
}

/// Stable part of a panic description for signatures: message without
/// numbers, file without line.
pub fn panic_signature(p: &str) -> String {
  let (msg, loc) = p.rsplit_once(" @ ").unwrap_or((p, ""));
  let file = loc.rsplit_once(':').map(|(f, _)| f).unwrap_or(loc);
  let file = file.rsplit_once("/repo/").map(|(_, f)| f).unwrap_or(file);
  // hashes and numbers are not part of *what* failed
  let mut out = String::new();
  let mut run = String::new();
  for c in msg.chars().chain(std::iter::once(' ')) {
    if c.is_ascii_hexdigit() {
      run.push(c);
      continue;
    }
    if run.len() >= 16 {
      out.push_str("<hash>");
    } else {
      out.extend(run.chars().map(|d| if d.is_ascii_digit() { '#' } else { d }));
    }
    run.clear();
    out.push(c);
  }
  let msg: String = out.trim_end().chars().take(60).collect();
  format!("{file}: {msg}")
}

/// Name of the function that encloses `file:line` (nearest preceding `fn`),
/// so that a panic site can be named in a way that survives line shifts.
pub fn enclosing_fn(location: &str) -> String {
  let mut parts = location.rsplitn(2, ':');
  let line: usize = parts.next().and_then(|l| l.parse().ok()).unwrap_or(0);
  let file = parts.next().unwrap_or("");
  let Ok(text) = std::fs::read_to_string(file) else { return "?".into() };
  let mut name = "?".to_string();
  for (i, l) in text.lines().enumerate() {
    if i + 1 > line {
      break;
    }
    let t = l.trim_start();
    let t = t.strip_prefix("pub(crate) ").or_else(|| t.strip_prefix("pub ")).unwrap_or(t);
    if let Some(rest) = t.strip_prefix("fn ") {
      name = rest.split(['(', '<']).next().unwrap_or("?").to_string();
    }
  }
  name
}
