//! Reveal-transaction generator (inscription envelopes).
//!
//! Envelopes are assembled byte by byte so that every shape named by the
//! properties can be produced: clean ones (through ord's own
//! `append_reveal_script_to_builder`), pointers inside/outside the output
//! range / with trailing zeros / over eight bytes, duplicate, incomplete,
//! unrecognised even/odd fields, pushnum opcodes, stutter, delegates, parents
//! of every kind, zero-value inputs, several envelopes and inputs.

use crate::{
  blockgen::{Avail, Gen},
  model::Model,
  rng::Rng,
};
use bitcoin::{Amount, ScriptBuf, Transaction, TxOut, Txid, Witness, script};
use ord::{Inscription, InscriptionId};
use std::collections::BTreeSet;

#[derive(Default)]
pub struct InscGen {
  /// reveal transactions whose first envelope of the first input was built
  /// clean (ground truth for C06): no pointer, no pushnum, no stutter, no
  /// duplicate / incomplete / unrecognised-even field
  pub clean_first: BTreeSet<Txid>,
  /// hidden by content according to the generator (text / unknown media)
  pub recent_ids: Vec<InscriptionId>,
}

pub fn push(script: &mut Vec<u8>, data: &[u8]) {
  let len = data.len();
  if len <= 75 {
    script.push(len as u8);
  } else if len <= 255 {
    script.extend([0x4c, len as u8]);
  } else if len <= 65535 {
    script.push(0x4d);
    script.extend((len as u16).to_le_bytes());
  } else {
    script.push(0x4e);
    script.extend((len as u32).to_le_bytes());
  }
  script.extend(data);
}

/// The 32/36-byte value encoding of an inscription id (txid LE bytes + index
/// LE without trailing zeros), written independently of ord's encoder.
pub fn id_value(id: &InscriptionId) -> Vec<u8> {
  use bitcoin::hashes::Hash;
  let mut v = id.txid.to_byte_array().to_vec();
  let idx = id.index.to_le_bytes();
  let mut n = 4;
  while n > 0 && idx[n - 1] == 0 {
    n -= 1;
  }
  v.extend(&idx[..n]);
  v
}

#[derive(Clone, Debug, PartialEq)]
pub enum Kind {
  Clean,
  Pointer,
  DupField,
  Incomplete,
  UnrecEven,
  UnrecOdd,
  Pushnum,
  Stutter,
  Odd, // odd shapes: no body, empty content type, nested, junk fields
}

pub struct EnvCtx<'a> {
  pub total_out: u64,
  pub output_starts: &'a [u64],
  pub own_txid: Txid,
  pub own_envelopes: u32,
  pub input_ids: &'a [InscriptionId],
  pub other_ids: &'a [InscriptionId],
  /// positions in the input stream that already carry an inscription
  pub inscribed_positions: &'a [u64],
}

fn content(rng: &mut Rng) -> (Option<Vec<u8>>, Option<Vec<u8>>) {
  let ct: Option<&[u8]> = match rng.below(8) {
    0 => None,
    1 => Some(b"text/plain;charset=utf-8"),
    2 => Some(b"image/png"),
    3 => Some(b"application/json"),
    4 => Some(b"text/html"),
    5 => Some(b""),
    6 => Some(b"\xff\xfe"),
    _ => Some(b"image/svg+xml"),
  };
  let body = match rng.below(6) {
    0 => None,
    1 => Some(Vec::new()),
    2 => Some(rng.bytes(600)), // two chunks
    _ => {
      let n = rng.usize(1, 40);
      Some(rng.bytes(n))
    }
  };
  (ct.map(|c| c.to_vec()), body)
}

fn parents(rng: &mut Rng, ctx: &EnvCtx, max: usize) -> Vec<Vec<u8>> {
  let n = match rng.below(10) {
    0..=4 => 0,
    5..=7 => 1,
    _ => rng.usize(2, 4),
  }
  .min(max);
  let mut out = Vec::new();
  for _ in 0..n {
    let id = match rng.below(10) {
      // held by this transaction's inputs
      0..=3 if !ctx.input_ids.is_empty() => *rng.pick(ctx.input_ids),
      // unrelated existing inscription
      4 | 5 if !ctx.other_ids.is_empty() => *rng.pick(ctx.other_ids),
      // revealed by this very transaction (earlier, same or later envelope)
      6 | 7 => InscriptionId { txid: ctx.own_txid, index: rng.below(u64::from(ctx.own_envelopes) + 2) as u32 },
      // absent
      _ => InscriptionId { txid: ctx.own_txid, index: 1000 + rng.below(5) as u32 },
    };
    let mut v = id_value(&id);
    match rng.below(12) {
      0 => v.truncate(31),        // malformed
      1 => v.extend([0, 0, 0]),   // trailing zeros (fixed width or malformed)
      2 if v.len() == 32 => v.extend([0, 0, 0, 0]), // 4-byte fixed-width form of index 0
      _ => {}
    }
    out.push(v);
    if rng.chance(1, 6) && !out.is_empty() {
      out.push(out[0].clone()); // duplicated parent
    }
  }
  out
}

/// One envelope as script bytes (starting at OP_FALSE).
pub fn envelope(rng: &mut Rng, kind: &Kind, ctx: &EnvCtx) -> Vec<u8> {
  let (content_type, body) = content(rng);
  if *kind == Kind::Clean {
    // through ord's own builder, at most one parent and no chunked field
    let inscription = Inscription {
      content_type,
      body,
      parents: parents(rng, ctx, 1).into_iter().take(1).collect(),
      delegate: if rng.chance(1, 6) {
        let id = if !ctx.other_ids.is_empty() {
          *rng.pick(ctx.other_ids)
        } else if !ctx.input_ids.is_empty() {
          *rng.pick(ctx.input_ids)
        } else {
          InscriptionId { txid: ctx.own_txid, index: 0 }
        };
        Some(id_value(&id))
      } else {
        None
      },
      metadata: if rng.chance(1, 6) { Some(rng.bytes(20)) } else { None },
      metaprotocol: if rng.chance(1, 8) { Some(b"brc-20".to_vec()) } else { None },
      ..Default::default()
    };
    return inscription.append_reveal_script_to_builder(script::Builder::new()).into_script().to_bytes();
  }
  let mut s = Vec::new();
  if *kind == Kind::Stutter {
    s.push(0x00);
  }
  s.extend([0x00, 0x63]);
  push(&mut s, b"ord");
  let mut fields: Vec<(Vec<u8>, Vec<u8>)> = Vec::new();
  if let Some(ct) = &content_type {
    fields.push((vec![1], ct.clone()));
  }
  for p in parents(rng, ctx, 4) {
    fields.push((vec![3], p));
  }
  match kind {
    Kind::Pointer => {
      let p: u64 = match rng.below(12) {
        // straight onto a sat that already carries an inscription (also in a later input)
        9..=11 if !ctx.inscribed_positions.is_empty() => *rng.pick(ctx.inscribed_positions),
        0 => 0,
        1 if !ctx.output_starts.is_empty() => *rng.pick(ctx.output_starts),
        2 if ctx.total_out > 0 => ctx.total_out - 1,
        3 => ctx.total_out,
        4 => ctx.total_out + rng.below(1000),
        5 => u64::MAX,
        _ if ctx.total_out > 0 => rng.below(ctx.total_out),
        _ => 0,
      };
      let mut v = p.to_le_bytes().to_vec();
      while v.last() == Some(&0) {
        v.pop();
      }
      match rng.below(8) {
        0 => v.extend([0, 0]),                    // trailing zeros
        1 => v.resize(8.max(v.len()), 0),         // full width
        2 => {
          v.resize(8, 0);
          v.extend([0, 0, 0]);                    // more than eight bytes, zero tail
        }
        3 => {
          v.resize(8, 0);
          v.push(1);                              // more than eight bytes, non-zero tail: invalid
        }
        _ => {}
      }
      fields.push((vec![2], v));
    }
    Kind::DupField => {
      let tag = *rng.pick(&[1u8, 2, 5, 7, 9, 11, 15, 17]);
      fields.push((vec![tag], rng.bytes(3)));
      fields.push((vec![tag], rng.bytes(2)));
    }
    Kind::UnrecEven => {
      let tag = *rng.pick(&[4u8, 6, 66, 100, 254, 0x10]);
      let tagv = if rng.chance(1, 5) { vec![tag, 7] } else { vec![tag] };
      fields.push((tagv, rng.bytes(2)));
    }
    Kind::UnrecOdd => {
      let tag = *rng.pick(&[15u8, 21, 99, 255]);
      fields.push((vec![tag], rng.bytes(2)));
    }
    Kind::Odd => match rng.below(4) {
      0 => fields.clear(),
      1 => {
        let n = rng.below(40) as usize;
        fields.push((vec![11], rng.bytes(n))) // junk delegate
      }
      2 => fields.push((vec![17], rng.bytes(30))),                      // junk properties
      _ => fields.push((vec![5], rng.bytes(700))),                      // oversize single push
    },
    _ => {}
  }
  if rng.chance(1, 3) {
    rng.shuffle(&mut fields);
  }
  for (i, (tag, value)) in fields.iter().enumerate() {
    push(&mut s, tag);
    if *kind == Kind::Pushnum && i == 0 {
      // a small value through OP_PUSHNUM_n / OP_1NEGATE
      s.push(*rng.pick(&[0x4fu8, 0x51, 0x52, 0x5a, 0x60]));
    } else {
      push(&mut s, value);
    }
  }
  if *kind == Kind::Pushnum && fields.is_empty() {
    s.push(0x51); // a pushnum as a tag, followed by its value
    push(&mut s, b"x");
  }
  if *kind == Kind::Incomplete {
    push(&mut s, &[*rng.pick(&[1u8, 5, 9, 15])]); // a tag without a value
  } else if let Some(body) = &body {
    s.push(0x00);
    for chunk in body.chunks(520) {
      push(&mut s, chunk);
    }
    if body.is_empty() && rng.chance(1, 2) {
      s.push(0x00); // explicit empty body push
    }
  }
  s.push(0x68);
  s
}

fn pick_kind(rng: &mut Rng) -> Kind {
  match rng.below(20) {
    0..=7 => Kind::Clean,
    8..=10 => Kind::Pointer,
    11 => Kind::DupField,
    12 => Kind::Incomplete,
    13 | 14 => Kind::UnrecEven,
    15 => Kind::UnrecOdd,
    16 => Kind::Pushnum,
    17 => Kind::Stutter,
    _ => Kind::Odd,
  }
}

pub fn reveal(g: &mut Gen, rng: &mut Rng, avail: &mut Vec<Avail>, model: &Model, _height: u32) -> Option<Transaction> {
  let n_in = *rng.pick(&[1usize, 1, 1, 2, 2, 3]);
  let inputs = g.pick_inputs(rng, avail, n_in, false);
  if inputs.is_empty() {
    return None;
  }
  let total: u64 = inputs.iter().map(|a| a.value).sum();
  let n_out = *rng.pick(&[1usize, 1, 2, 2, 3]);
  let fee_mode = *rng.pick(&[0u64, 1, 1, 1, 2, 3, 4]);
  let (values, _fee) = g.split_values(rng, total, n_out, fee_mode);
  let mut output: Vec<TxOut> = values.iter().map(|v| TxOut { value: Amount::from_sat(*v), script_pubkey: g.script(rng) }).collect();
  if rng.chance(1, 7) {
    let i = rng.below(output.len() as u64) as usize;
    output[i].script_pubkey = rng.pick(&g.op_returns).clone(); // reveal straight into an OP_RETURN
  }
  let mut tx = g.finish(inputs.clone(), output, Vec::new());
  let own_txid = tx.compute_txid(); // txids do not commit to witnesses
  let total_out: u64 = tx.output.iter().map(|o| o.value.to_sat()).sum();
  let mut output_starts = Vec::new();
  let mut acc = 0;
  for o in &tx.output {
    output_starts.push(acc);
    acc += o.value.to_sat();
  }
  let input_ids: Vec<InscriptionId> = inputs.iter().flat_map(|a| model.inscriptions_in(&a.outpoint)).collect();
  let other_ids: Vec<InscriptionId> = g.extra.recent_ids.clone();
  let mut inscribed_positions: Vec<u64> = Vec::new();
  let mut start = 0u64;
  for a in &inputs {
    if let Some(out) = model.sats.utxos.get(&a.outpoint) {
      let mut offset = 0u64;
      for (ra, rb) in &out.ranges {
        for (sat, _) in model.insc.by_sat.range(*ra..*rb) {
          inscribed_positions.push(start + offset + (sat - ra));
        }
        offset += rb - ra;
      }
    }
    start += a.value;
  }
  // how many envelopes per input
  let counts: Vec<usize> = (0..inputs.len())
    .map(|_| match rng.below(12) {
      0 | 1 => 0,
      2..=8 => 1,
      9 | 10 => 2,
      _ => 3,
    })
    .collect();
  let total_envelopes: usize = counts.iter().sum();
  let mut first_kind = None;
  for (i, n) in counts.iter().enumerate() {
    let mut tapscript = Vec::new();
    // a plausible prefix: <32-byte key> OP_CHECKSIG
    if rng.chance(2, 3) {
      push(&mut tapscript, &[2u8; 32]);
      tapscript.push(0xac);
    }
    for k in 0..*n {
      let kind = pick_kind(rng);
      if i == 0 && k == 0 {
        first_kind = Some(kind.clone());
      }
      let ctx = EnvCtx { total_out, output_starts: &output_starts, own_txid, own_envelopes: total_envelopes as u32, input_ids: &input_ids, other_ids: &other_ids, inscribed_positions: &inscribed_positions };
      tapscript.extend(envelope(rng, &kind, &ctx));
      if rng.chance(1, 10) {
        tapscript.push(0x51); // stray opcode between envelopes
      }
    }
    let mut witness = Witness::new();
    match rng.below(12) {
      0 if *n == 0 => {} // empty witness
      1 if *n == 0 => witness.push(rng.bytes(64)), // key-path spend
      2 => {
        // with annex
        witness.push(&tapscript);
        witness.push([0xc0u8; 33]);
        witness.push([0x50u8, 1, 2]);
      }
      _ => {
        if rng.chance(1, 3) {
          witness.push(rng.bytes(64)); // a signature before the script
        }
        witness.push(&tapscript);
        witness.push([0xc0u8; 33]);
      }
    }
    tx.input[i].witness = witness;
  }
  assert_eq!(tx.compute_txid(), own_txid);
  if first_kind == Some(Kind::Clean) && counts[0] > 0 {
    g.extra.clean_first.insert(own_txid);
  }
  for k in 0..total_envelopes {
    if g.extra.recent_ids.len() < 40 {
      g.extra.recent_ids.push(InscriptionId { txid: own_txid, index: k as u32 });
    } else {
      let i = rng.below(40) as usize;
      g.extra.recent_ids[i] = InscriptionId { txid: own_txid, index: k as u32 };
    }
  }
  Some(tx)
}

/// A script that is only there to be non-standard: used by robustness runs.
pub fn junk_script(rng: &mut Rng) -> ScriptBuf {
  let n = rng.usize(0, 60);
  ScriptBuf::from_bytes(rng.bytes(n))
}

// ------------------------------------------------------------ adversarial

pub fn brotli_compress(data: &[u8]) -> Vec<u8> {
  use std::io::Write;
  let mut out = Vec::new();
  {
    let mut w = brotli::CompressorWriter::new(&mut out, 4096, 5, 22);
    let _ = w.write_all(data);
  }
  out
}

/// CBOR byte strings chosen to stress decoders: deep nesting, indefinite
/// lengths, huge declared lengths, truncation.
pub fn nasty_cbor(rng: &mut Rng) -> Vec<u8> {
  match rng.below(9) {
    0 => vec![0x81; rng.usize(10, 20_000)],             // arrays nested n deep
    1 => vec![0xa1; rng.usize(10, 20_000)],             // maps nested n deep
    2 => vec![0x9f; rng.usize(10, 20_000)],             // indefinite arrays never closed
    3 => vec![0x9b, 0xff, 0xff, 0xff, 0xff, 0xff, 0xff, 0xff, 0xff], // array of 2^64-1 items
    4 => vec![0x5b, 0x7f, 0xff, 0xff, 0xff, 0xff, 0xff, 0xff, 0xff, 1, 2], // byte string of 2^63 bytes
    5 => vec![0xc6; rng.usize(10, 20_000)],             // nested tags
    6 => {
      // a plausible gallery map, truncated
      let mut v = vec![0xa1, 0x00, 0x98, 0xff];
      v.extend(rng.bytes(40));
      v
    }
    7 => vec![0xfb, 0x7f, 0xf8, 0, 0, 0, 0, 0, 0], // NaN
    _ => {
      let n = rng.usize(0, 300);
      rng.bytes(n)
    }
  }
}

/// An adversarial (but consensus-valid) transaction: random witness stacks,
/// hostile CBOR / brotli in metadata and properties, dozens of envelopes,
/// megabyte scripts, deep OP_IF nesting, huge runestones.
pub fn adversarial(g: &mut Gen, rng: &mut Rng, avail: &mut Vec<Avail>, _model: &Model, _height: u32) -> Option<Transaction> {
  let n_in = *rng.pick(&[1usize, 1, 2, 3]);
  let inputs = g.pick_inputs(rng, avail, n_in, false);
  if inputs.is_empty() {
    return None;
  }
  let total: u64 = inputs.iter().map(|a| a.value).sum();
  let n_out = *rng.pick(&[1usize, 2, 3]);
  let fee_mode = *rng.pick(&[0u64, 1, 3]);
  let (values, _fee) = g.split_values(rng, total, n_out, fee_mode);
  let mut output: Vec<TxOut> = values.iter().map(|v| TxOut { value: Amount::from_sat(*v), script_pubkey: g.script(rng) }).collect();
  // odd output scripts and hostile runestones
  match rng.below(8) {
    0 => output.push(TxOut { value: Amount::ZERO, script_pubkey: junk_script(rng) }),
    1 => {
      // a runestone of ten thousand integers
      let mut payload = Vec::new();
      let n = rng.usize(1000, 10_000);
      for i in 0..n {
        crate::props::c25::leb(if i % 7 == 0 { u128::MAX } else { rng.log_u128() }, &mut payload);
      }
      let mut s = vec![0x6a, 0x5d];
      for chunk in payload.chunks(500) {
        push(&mut s, chunk);
      }
      output.push(TxOut { value: Amount::ZERO, script_pubkey: ScriptBuf::from_bytes(s) });
    }
    2 => {
      // edicts with u128::MAX amounts to every output
      let mut payload = Vec::new();
      crate::props::c25::leb(0, &mut payload);
      for _ in 0..rng.usize(1, 50) {
        for v in [1u128, 0, u128::MAX, u128::from(rng.below(4))] {
          crate::props::c25::leb(v, &mut payload);
        }
      }
      let mut s = vec![0x6a, 0x5d];
      push(&mut s, &payload);
      output.insert(0, TxOut { value: Amount::ZERO, script_pubkey: ScriptBuf::from_bytes(s) });
    }
    3 => output.push(TxOut { value: Amount::ZERO, script_pubkey: ScriptBuf::from_bytes(vec![0x6a, 0x5d, 0x4e, 0xff, 0xff, 0xff, 0x7f]) }),
    _ => {}
  }
  let mut tx = g.finish(inputs.clone(), output, Vec::new());
  for i in 0..tx.input.len() {
    let mut witness = Witness::new();
    match rng.below(9) {
      0 => {
        // random stack
        for _ in 0..rng.usize(0, 6) {
          let n = if rng.chance(1, 20) { 100_000 } else { rng.usize(0, 200) };
          witness.push(rng.bytes(n));
        }
      }
      1 => {
        // dozens of envelopes
        let mut s = Vec::new();
        for k in 0..rng.usize(30, 120) {
          s.extend([0x00, 0x63]);
          push(&mut s, b"ord");
          push(&mut s, &[1]);
          push(&mut s, b"text/plain");
          s.push(0x00);
          push(&mut s, format!("{k}").as_bytes());
          s.push(0x68);
        }
        witness.push(&s);
        witness.push([0xc0u8; 33]);
      }
      2 => {
        // hostile CBOR in metadata and properties, brotli in property encoding
        let mut s = vec![0x00, 0x63];
        push(&mut s, b"ord");
        let cbor = nasty_cbor(rng);
        for chunk in cbor.chunks(520) {
          push(&mut s, &[5]);
          push(&mut s, chunk);
        }
        let props = match rng.below(4) {
          0 => brotli_compress(&vec![0u8; rng.usize(10_000, 4_500_000)]), // bomb
          1 => brotli_compress(&nasty_cbor(rng)),
          2 => rng.bytes(50), // invalid brotli
          _ => nasty_cbor(rng),
        };
        for chunk in props.chunks(520) {
          push(&mut s, &[17]);
          push(&mut s, chunk);
        }
        if rng.chance(3, 4) {
          push(&mut s, &[19]);
          push(&mut s, if rng.chance(4, 5) { b"br" } else { b"gzip" });
        }
        s.push(0x00);
        push(&mut s, b"x");
        s.push(0x68);
        witness.push(&s);
        witness.push([0xc0u8; 33]);
      }
      3 => {
        // a two-megabyte script
        let mut s = Vec::with_capacity(2_100_000);
        if rng.chance(1, 2) {
          s.extend([0x00, 0x63]);
          push(&mut s, b"ord");
          s.push(0x00);
          let chunk = vec![0xabu8; 520];
          for _ in 0..4000 {
            push(&mut s, &chunk);
          }
          s.push(0x68);
        } else {
          s = rng.bytes(2_000_000);
        }
        witness.push(&s);
        witness.push([0xc0u8; 33]);
      }
      4 => {
        // deep OP_IF nesting and unterminated envelopes
        let mut s = Vec::new();
        for _ in 0..rng.usize(100, 5000) {
          s.extend([0x00, 0x63]);
        }
        push(&mut s, b"ord");
        witness.push(&s);
        witness.push([0xc0u8; 33]);
      }
      5 => {
        // annex-looking and control-block-looking junk in odd places
        witness.push([0x50u8]);
        witness.push([0x50u8, 0x50]);
        witness.push([0x50u8]);
      }
      6 => {
        // envelope whose fields are huge / numerous
        let mut s = vec![0x00, 0x63];
        push(&mut s, b"ord");
        for _ in 0..rng.usize(100, 2000) {
          push(&mut s, &[*rng.pick(&[1u8, 2, 3, 5, 7, 9, 11, 13, 17, 19, 4, 66])]);
          let n = rng.usize(0, 40);
          push(&mut s, &rng.bytes(n));
        }
        s.push(0x68);
        witness.push(&s);
        witness.push([0xc0u8; 33]);
      }
      _ => {
        witness.push(rng.bytes(64));
      }
    }
    tx.input[i].witness = witness;
  }
  Some(tx)
}
