//! Reveal-transaction generator (inscription envelopes).

use crate::{blockgen::{Avail, Gen}, model::Model, rng::Rng};
use bitcoin::Transaction;

#[derive(Default)]
pub struct InscGen {}

pub fn reveal(_g: &mut Gen, _rng: &mut Rng, _avail: &mut Vec<Avail>, _model: &Model, _height: u32) -> Option<Transaction> {
  None
}
