//! The node side: mockcore's RPC server with blocks injected directly into
//! its public state, so that the generator controls every byte of every block
//! (multi-output / under-paying coinbases, duplicate txids, arbitrary
//! witnesses and scripts) and can reorganise the chain.

use bitcoin::{
  Amount, Block, BlockHash, CompactTarget, Network, OutPoint, Transaction, TxMerkleNode,
  block::{Header, Version},
  hashes::Hash,
};

// mockcore does not export its `State` type by name (only through the guard
// returned by `Handle::state()`), hence a macro rather than a function.
macro_rules! apply_block {
  ($state:expr, $block:expr, $height:expr) => {{
    let block: &Block = $block;
    let height: u32 = $height;
    for tx in &block.txdata {
      let txid = tx.compute_txid();
      $state.transactions.insert(txid, tx.clone());
      $state.txid_to_block_height.insert(txid, height);
      for input in &tx.input {
        if !input.previous_output.is_null() {
          $state.utxos.remove(&input.previous_output);
        }
      }
      for (vout, out) in tx.output.iter().enumerate() {
        if !out.script_pubkey.is_op_return() {
          $state.utxos.insert(OutPoint { txid, vout: vout as u32 }, out.value);
        }
      }
    }
  }};
}

pub struct Node {
  pub handle: mockcore::Handle,
  pub network: Network,
  nonce: u32,
}

impl Node {
  pub fn new(network: Network) -> Node {
    Node {
      handle: mockcore::builder().network(network).build(),
      network,
      nonce: 1 << 20,
    }
  }

  pub fn url(&self) -> String {
    self.handle.url()
  }

  pub fn cookie_file(&self) -> std::path::PathBuf {
    self.handle.cookie_file()
  }

  /// Height of the tip (genesis = 0).
  pub fn height(&self) -> u32 {
    (self.handle.state().hashes.len() - 1) as u32
  }

  pub fn tip(&self) -> BlockHash {
    *self.handle.state().hashes.last().unwrap()
  }

  pub fn hash_at(&self, height: u32) -> Option<BlockHash> {
    self.handle.state().hashes.get(height as usize).copied()
  }

  pub fn block_at(&self, height: u32) -> Option<Block> {
    let state = self.handle.state();
    let hash = state.hashes.get(height as usize)?;
    state.blocks.get(hash).cloned()
  }

  /// All blocks of the active chain above genesis.
  pub fn chain(&self) -> Vec<Block> {
    let state = self.handle.state();
    state.hashes.iter().skip(1).map(|h| state.blocks[h].clone()).collect()
  }

  /// Append a block made of `txdata` (txdata[0] is the coinbase).
  pub fn push_block(&mut self, txdata: Vec<Transaction>) -> Block {
    self.nonce += 1;
    let mut state = self.handle.state();
    let height = state.hashes.len();
    let block = Block {
      header: Header {
        version: Version::ONE,
        prev_blockhash: *state.hashes.last().unwrap(),
        merkle_root: TxMerkleNode::all_zeros(),
        time: height as u32,
        bits: CompactTarget::from_consensus(0),
        nonce: self.nonce,
      },
      txdata,
    };
    apply_block!(state, &block, height as u32);
    let hash = block.block_hash();
    state.blocks.insert(hash, block.clone());
    state.hashes.push(hash);
    block
  }

  /// Re-append a block object built earlier (e.g. to restore a branch).
  pub fn push_existing(&mut self, block: &Block) {
    let mut state = self.handle.state();
    let height = state.hashes.len();
    assert_eq!(block.header.prev_blockhash, *state.hashes.last().unwrap());
    apply_block!(state, block, height as u32);
    let hash = block.block_hash();
    state.blocks.insert(hash, block.clone());
    state.hashes.push(hash);
  }

  /// Disconnect the `n` top blocks (the node switches away from them) and
  /// rebuild the transaction / utxo maps from the remaining active chain.
  pub fn pop_blocks(&mut self, n: u32) -> Vec<Block> {
    let mut state = self.handle.state();
    let mut popped = Vec::new();
    for _ in 0..n {
      assert!(state.hashes.len() > 1, "cannot pop genesis");
      let hash = state.hashes.pop().unwrap();
      popped.push(state.blocks.remove(&hash).unwrap());
    }
    popped.reverse();
    state.transactions.clear();
    state.txid_to_block_height.clear();
    state.utxos.clear();
    state.mempool.clear();
    let hashes: Vec<BlockHash> = state.hashes.clone();
    for (height, hash) in hashes.iter().enumerate().skip(1) {
      let block = state.blocks[hash].clone();
      apply_block!(state, &block, height as u32);
    }
    popped
  }

  pub fn utxo_value(&self, outpoint: &OutPoint) -> Option<Amount> {
    self.handle.state().utxos.get(outpoint).copied()
  }
}

