//! Canonical dumps of the whole index (hook H2) and their comparison.
//!
//! Masked (not part of "index content"): the write-transaction timestamp
//! table, and the statistics Commits, InitialSyncTime, LastSavepointHeight —
//! timing and commit bookkeeping.

use ord::Index;
use std::collections::BTreeMap;

pub type Dump = Vec<(String, String, String)>;

const MASKED_TABLES: &[&str] = &["WRITE_TRANSACTION_STARTING_BLOCK_COUNT_TO_TIMESTAMP"];
// Statistic keys: Commits = 2, InitialSyncTime = 9, LastSavepointHeight = 17
const MASKED_STATISTICS: &[&str] = &["2", "9", "17"];

pub fn masked_dump(index: &Index) -> anyhow::Result<Dump> {
  let mut out: Dump = index
    .verif_dump()?
    .into_iter()
    .filter(|(table, key, _)| !MASKED_TABLES.contains(table) && !(*table == "STATISTIC_TO_COUNT" && MASKED_STATISTICS.contains(&key.as_str())))
    .map(|(t, k, v)| (t.to_string(), k, v))
    .collect();
  out.sort();
  Ok(out)
}

pub fn fingerprint(dump: &Dump) -> u64 {
  crate::report::hash_of(dump)
}

/// A short human-readable description of how two dumps differ.
pub fn diff(a: &Dump, b: &Dump, a_name: &str, b_name: &str) -> String {
  let ma: BTreeMap<(&str, &str), &str> = a.iter().map(|(t, k, v)| ((t.as_str(), k.as_str()), v.as_str())).collect();
  let mb: BTreeMap<(&str, &str), &str> = b.iter().map(|(t, k, v)| ((t.as_str(), k.as_str()), v.as_str())).collect();
  let mut lines = Vec::new();
  let mut per_table: BTreeMap<&str, usize> = BTreeMap::new();
  for ((t, k), v) in &ma {
    match mb.get(&(*t, *k)) {
      Some(w) if w == v => {}
      other => {
        *per_table.entry(t).or_default() += 1;
        if lines.len() < 6 {
          lines.push(format!("{t}[{}]: {a_name}={} {b_name}={}", clip(k), clip(v), other.map(|w| clip(w)).unwrap_or_else(|| "<absent>".into())));
        }
      }
    }
  }
  for ((t, k), w) in &mb {
    if !ma.contains_key(&(*t, *k)) {
      *per_table.entry(t).or_default() += 1;
      if lines.len() < 6 {
        lines.push(format!("{t}[{}]: {a_name}=<absent> {b_name}={}", clip(k), clip(w)));
      }
    }
  }
  format!("rows differing per table {per_table:?}; e.g. {}", lines.join(" | "))
}

fn clip(s: &str) -> String {
  if s.len() > 160 { format!("{}…", &s[..160]) } else { s.to_string() }
}

/// Tables touched by the difference (for signatures).
pub fn differing_tables(a: &Dump, b: &Dump) -> Vec<String> {
  let ma: BTreeMap<(&str, &str), &str> = a.iter().map(|(t, k, v)| ((t.as_str(), k.as_str()), v.as_str())).collect();
  let mb: BTreeMap<(&str, &str), &str> = b.iter().map(|(t, k, v)| ((t.as_str(), k.as_str()), v.as_str())).collect();
  let mut tables = std::collections::BTreeSet::new();
  for (k, v) in &ma {
    if mb.get(k) != Some(v) {
      tables.insert(k.0.to_string());
    }
  }
  for k in mb.keys() {
    if !ma.contains_key(k) {
      tables.insert(k.0.to_string());
    }
  }
  tables.into_iter().collect()
}

/// Every row that differs: (table, key, value in a, value in b).
pub fn differing_rows(a: &Dump, b: &Dump) -> Vec<(String, String, Option<String>, Option<String>)> {
  // multimap tables repeat keys: compare (table, key, value) triples as sets
  let sa: std::collections::BTreeSet<&(String, String, String)> = a.iter().collect();
  let sb: std::collections::BTreeSet<&(String, String, String)> = b.iter().collect();
  let mut out = Vec::new();
  for r in sa.difference(&sb) {
    out.push((r.0.clone(), r.1.clone(), Some(r.2.clone()), None));
  }
  for r in sb.difference(&sa) {
    out.push((r.0.clone(), r.1.clone(), None, Some(r.2.clone())));
  }
  out
}

/// Parse the `{:?}` rendering of a byte array / slice (`[1, 2, 3]`).
pub fn parse_debug_bytes(s: &str) -> Option<Vec<u8>> {
  let inner = s.trim().strip_prefix('[')?.strip_suffix(']')?;
  if inner.trim().is_empty() {
    return Some(Vec::new());
  }
  inner.split(',').map(|x| x.trim().parse::<u8>().ok()).collect()
}

/// True when every differing row is a UTXO / address-index row of an outpoint
/// whose txid occurs more than once in the chain (duplicate coinbase): the
/// displaced-entry defect recorded for C01/C02, seen through another lens.
pub fn only_displaced_duplicate_rows(a: &Dump, b: &Dump, dup_txids: &std::collections::BTreeSet<[u8; 32]>) -> bool {
  let rows = differing_rows(a, b);
  !rows.is_empty()
    && rows.iter().all(|(table, key, va, vb)| {
      let outpoint_bytes = match table.as_str() {
        "OUTPOINT_TO_UTXO_ENTRY" => parse_debug_bytes(key),
        "SCRIPT_PUBKEY_TO_OUTPOINT" => va.as_ref().or(vb.as_ref()).and_then(|v| parse_debug_bytes(v)),
        _ => None,
      };
      match outpoint_bytes {
        Some(bytes) if bytes.len() == 36 => dup_txids.contains(<&[u8; 32]>::try_from(&bytes[..32]).unwrap()),
        _ => false,
      }
    })
}

pub fn duplicated_coinbase_txids(blocks: &[bitcoin::Block]) -> std::collections::BTreeSet<[u8; 32]> {
  use bitcoin::hashes::Hash;
  let mut seen = std::collections::BTreeSet::new();
  let mut dup = std::collections::BTreeSet::new();
  for b in blocks {
    let id = b.txdata[0].compute_txid().to_byte_array();
    if !seen.insert(id) {
      dup.insert(id);
    }
  }
  dup
}
