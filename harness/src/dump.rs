//! Canonical dumps of the whole index (hook H2) and their comparison.
//!
//! Masked (not part of "index content"): the write-transaction timestamp
//! table, and the statistics Commits, InitialSyncTime, LastSavepointHeight —
//! timing and commit bookkeeping.

use ord::Index;
use std::collections::BTreeMap;

pub type Dump = Vec<(String, String, String)>;

const MASKED_TABLES: &[&str] = &["WRITE_TRANSACTION_STARTING_BLOCK_COUNT_TO_TIMESTAMP"];
// Statistic keys: Commits = 2, InitialSyncTime = 9, LastSavepointHeight = 17
const MASKED_STATISTICS: &[&str] = &["2", "9", "17"];

pub fn masked_dump(index: &Index) -> anyhow::Result<Dump> {
  let mut out: Dump = index
    .verif_dump()?
    .into_iter()
    .filter(|(table, key, _)| !MASKED_TABLES.contains(table) && !(*table == "STATISTIC_TO_COUNT" && MASKED_STATISTICS.contains(&key.as_str())))
    .map(|(t, k, v)| (t.to_string(), k, v))
    .collect();
  out.sort();
  Ok(out)
}

pub fn fingerprint(dump: &Dump) -> u64 {
  crate::report::hash_of(dump)
}

/// A short human-readable description of how two dumps differ.
pub fn diff(a: &Dump, b: &Dump, a_name: &str, b_name: &str) -> String {
  let ma: BTreeMap<(&str, &str), &str> = a.iter().map(|(t, k, v)| ((t.as_str(), k.as_str()), v.as_str())).collect();
  let mb: BTreeMap<(&str, &str), &str> = b.iter().map(|(t, k, v)| ((t.as_str(), k.as_str()), v.as_str())).collect();
  let mut lines = Vec::new();
  let mut per_table: BTreeMap<&str, usize> = BTreeMap::new();
  for ((t, k), v) in &ma {
    match mb.get(&(*t, *k)) {
      Some(w) if w == v => {}
      other => {
        *per_table.entry(t).or_default() += 1;
        if lines.len() < 6 {
          lines.push(format!("{t}[{}]: {a_name}={} {b_name}={}", clip(k), clip(v), other.map(|w| clip(w)).unwrap_or_else(|| "<absent>".into())));
        }
      }
    }
  }
  for ((t, k), w) in &mb {
    if !ma.contains_key(&(*t, *k)) {
      *per_table.entry(t).or_default() += 1;
      if lines.len() < 6 {
        lines.push(format!("{t}[{}]: {a_name}=<absent> {b_name}={}", clip(k), clip(w)));
      }
    }
  }
  format!("rows differing per table {per_table:?}; e.g. {}", lines.join(" | "))
}

fn clip(s: &str) -> String {
  if s.len() > 160 { format!("{}…", &s[..160]) } else { s.to_string() }
}

/// Tables touched by the difference (for signatures).
pub fn differing_tables(a: &Dump, b: &Dump) -> Vec<String> {
  let ma: BTreeMap<(&str, &str), &str> = a.iter().map(|(t, k, v)| ((t.as_str(), k.as_str()), v.as_str())).collect();
  let mb: BTreeMap<(&str, &str), &str> = b.iter().map(|(t, k, v)| ((t.as_str(), k.as_str()), v.as_str())).collect();
  let mut tables = std::collections::BTreeSet::new();
  for (k, v) in &ma {
    if mb.get(k) != Some(v) {
      tables.insert(k.0.to_string());
    }
  }
  for k in mb.keys() {
    if !ma.contains_key(k) {
      tables.insert(k.0.to_string());
    }
  }
  tables.into_iter().collect()
}
