//! Rune transaction generator (etchings, mints, edicts, cenotaphs).

use crate::{blockgen::{Avail, Gen}, model::Model, rng::Rng};
use bitcoin::Transaction;

#[derive(Default)]
pub struct RuneGen {}

pub fn rune_tx(_g: &mut Gen, _rng: &mut Rng, _avail: &mut Vec<Avail>, _model: &Model, _height: u32, _tx_index: u32) -> Option<Transaction> {
  None
}
