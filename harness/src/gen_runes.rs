//! Rune transaction generator: etchings (named with a matured / immature /
//! non-taproot / missing commitment, below or above the block's minimum,
//! reserved, duplicate; unnamed; in cenotaphs), mints around every window
//! edge and the cap, edict lists of every kind, pointers, every flaw, and
//! plain transfers of runic outputs (also into OP_RETURN and fees).

use crate::{
  blockgen::{Avail, Gen},
  model::Model,
  props::c25,
  rng::Rng,
};
use bitcoin::{Amount, ScriptBuf, Transaction, TxOut, Witness};
use ordinals::{Edict, Etching, Height, Rune, RuneId, Runestone, Terms};

#[derive(Default)]
pub struct RuneGen {
  /// names used so far (for duplicate-name etchings)
  pub names: Vec<u128>,
}

fn is_p2tr(s: &ScriptBuf) -> bool {
  let b = s.as_bytes();
  b.len() == 34 && b[0] == 0x51 && b[1] == 0x20
}

fn gen_terms(rng: &mut Rng, height: u32) -> Terms {
  let h = u64::from(height);
  let around = |rng: &mut Rng| -> u64 {
    match rng.below(8) {
      0 => 0,
      1 => h,
      2 => h + 1,
      3 => h.saturating_sub(1),
      4 => h + rng.below(6),
      5 => u64::MAX,
      6 => u64::MAX - rng.below(3),
      _ => h + rng.below(12),
    }
  };
  let rel = |rng: &mut Rng| -> u64 {
    match rng.below(6) {
      0 => 0,
      1 => 1,
      2 => u64::MAX,
      3 => u64::MAX - h,
      _ => rng.below(10),
    }
  };
  let opt = |rng: &mut Rng, f: &dyn Fn(&mut Rng) -> u64| if rng.chance(1, 2) { Some(f(rng)) } else { None };
  Terms {
    amount: if rng.chance(5, 6) { Some(*rng.pick(&[0u128, 1, 7, 1000, u128::from(u64::MAX)])) } else { None },
    cap: if rng.chance(5, 6) { Some(*rng.pick(&[0u128, 1, 1, 2, 3, 5, u128::from(u32::MAX)])) } else { None },
    height: (opt(rng, &around), opt(rng, &around)),
    offset: (opt(rng, &rel), opt(rng, &rel)),
  }
}

fn name_for(rng: &mut Rng, g: &Gen, height: u32) -> u128 {
  let minimum = Rune::minimum_at_height(bitcoin::Network::Regtest, Height(height)).0;
  match rng.below(12) {
    // at / just below / just above the block's minimum
    0 => minimum,
    1 => minimum.saturating_sub(1 + rng.below(3) as u128),
    2 => minimum + 1 + rng.below(1000) as u128,
    // reserved range
    3 => Rune::RESERVED + rng.below(5) as u128,
    4 => u128::MAX - rng.below(3) as u128,
    // short (locked) names
    5 => rng.below(26 * 26) as u128,
    // a name that already exists
    6 | 7 if !g.runes.names.is_empty() => *rng.pick(&g.runes.names),
    // ordinary 13+ letter names
    _ => minimum + rng.below_u128(Rune::RESERVED - minimum),
  }
}

pub fn rune_tx(g: &mut Gen, rng: &mut Rng, avail: &mut Vec<Avail>, model: &Model, height: u32, _tx_index: u32) -> Option<Transaction> {
  // inputs: prefer runic outputs; for etchings one aged taproot output
  let n_in = *rng.pick(&[1usize, 1, 2, 2, 3]);
  let mut inputs = g.pick_inputs(rng, avail, n_in, false);
  if inputs.is_empty() {
    return None;
  }
  let want_etching = rng.chance(2, 5);
  let mut commit_input: Option<usize> = None;
  let mut twin_commit: Option<usize> = None;
  if want_etching {
    // choose the kind of commitment input
    let kind = rng.below(10);
    let pred: Box<dyn Fn(&Avail) -> bool> = match kind {
      0..=5 => Box::new(|a: &Avail| is_p2tr(&a.script) && !a.same_block && a.height + 5 <= height), // matured
      6 | 7 => Box::new(|a: &Avail| is_p2tr(&a.script) && (a.same_block || a.height + 5 > height)),   // too young
      8 => Box::new(|a: &Avail| !is_p2tr(&a.script) && !a.same_block && a.height + 5 <= height),     // not taproot
      _ => Box::new(|_| false),                                                                         // none
    };
    if let Some(pos) = avail.iter().position(|a| pred(a)) {
      inputs.push(avail.swap_remove(pos));
      commit_input = Some(inputs.len() - 1);
    } else if let Some(pos) = inputs.iter().position(|a| pred(a)) {
      commit_input = Some(pos);
    }
    // a sibling output of the same earlier transaction with the *other*
    // script type, spent by an input that carries the same commitment: only
    // the taproot one counts, whatever the order of the two inputs
    if let Some(ci) = commit_input
      && rng.chance(1, 3)
    {
      let txid = inputs[ci].outpoint.txid;
      let taproot = is_p2tr(&inputs[ci].script);
      if let Some(pos) = avail.iter().position(|a| a.outpoint.txid == txid && is_p2tr(&a.script) != taproot && !a.same_block) {
        let sibling = avail.swap_remove(pos);
        if rng.chance(1, 2) {
          inputs.insert(ci, sibling);
          commit_input = Some(ci + 1);
          twin_commit = Some(ci);
        } else {
          inputs.push(sibling);
          twin_commit = Some(inputs.len() - 1);
        }
      }
    }
  }
  let total: u64 = inputs.iter().map(|a| a.value).sum();
  let n_out = *rng.pick(&[1usize, 2, 2, 3, 4]);
  let fee_mode = *rng.pick(&[0u64, 1, 1, 1, 3]);
  let (values, _) = g.split_values(rng, total, n_out, fee_mode);
  let mut output: Vec<TxOut> = values.iter().map(|v| TxOut { value: Amount::from_sat(*v), script_pubkey: g.script(rng) }).collect();
  // OP_RETURN outputs that are not runestones, at random positions
  if rng.chance(1, 5) {
    let i = rng.usize(0, output.len());
    output.insert(i, TxOut { value: Amount::ZERO, script_pubkey: ScriptBuf::from_bytes(vec![0x6a, 0x01, 0x21]) });
  }
  if rng.chance(1, 12) {
    for o in output.iter_mut() {
      o.script_pubkey = ScriptBuf::from_bytes(vec![0x6a]); // everything burns
    }
  }
  let outputs_with_stone = output.len() as u32 + 1;

  // ids this transaction can meaningfully name
  let mut ids: Vec<RuneId> = Vec::new();
  for a in &inputs {
    if let Some(b) = model.runes.balances.get(&a.outpoint) {
      ids.extend(b.keys().map(|(b, t)| RuneId { block: *b, tx: *t }));
    }
  }
  let existing: Vec<RuneId> = model.runes.entries.keys().map(|(b, t)| RuneId { block: *b, tx: *t }).collect();

  let stone_kind = rng.below(20);
  if stone_kind == 0 {
    // no runestone at all: default allocation of input runes
    let tx = g.finish(inputs, output, Vec::new());
    return Some(tx);
  }
  let mut stone = Runestone::default();
  let mut witnesses: Vec<Witness> = vec![Witness::new(); inputs.len()];
  if want_etching {
    let rune = name_for(rng, g, height);
    let named = rng.chance(5, 6);
    let mut etching = Etching {
      divisibility: if rng.chance(1, 2) { Some(rng.below(39) as u8) } else { None },
      premine: if rng.chance(2, 3) { Some(*rng.pick(&[0u128, 1, 1000, 21_000_000, u128::from(u64::MAX)])) } else { None },
      rune: named.then_some(Rune(rune)),
      spacers: if rng.chance(1, 3) { Some(rng.next_u32() & 0xfff) } else { None },
      symbol: if rng.chance(1, 3) { Some('$') } else { None },
      terms: if rng.chance(2, 3) { Some(gen_terms(rng, height)) } else { None },
      turbo: rng.chance(1, 4),
    };
    while etching.supply().is_none() {
      etching.premine = etching.premine.map(|p| p / 2);
      if let Some(t) = etching.terms.as_mut() {
        t.amount = t.amount.map(|a| a / 2);
      }
    }
    stone.etching = Some(etching);
    if named && let Some(ci) = commit_input {
      // tapscript pushing the commitment; sometimes a wrong one
      let mut commitment = Rune(rune).commitment();
      if rng.chance(1, 10) {
        commitment.push(1);
      }
      let mut script = Vec::new();
      crate::gen_insc::push(&mut script, &[3u8; 32]);
      script.push(0xac);
      crate::gen_insc::push(&mut script, &commitment);
      let mut w = Witness::new();
      w.push(&script);
      w.push([0xc0u8; 33]);
      // sometimes attach it to another input than the aged taproot one
      let at = if rng.chance(1, 8) { rng.below(inputs.len() as u64) as usize } else { ci };
      if let Some(t) = twin_commit {
        witnesses[t] = w.clone();
      }
      witnesses[at] = w;
    }
    if named && g.runes.names.len() < 32 {
      g.runes.names.push(rune);
    }
  }
  // mint
  if rng.chance(1, 2) {
    stone.mint = Some(match rng.below(8) {
      0 => RuneId { block: u64::from(height), tx: rng.below(6) as u32 }, // etched in this block (before or after this tx)
      1 => RuneId { block: u64::from(height) + 1, tx: 0 },
      2 => RuneId { block: 1 + rng.below(u64::from(height) + 1), tx: rng.below(4) as u32 },
      _ if !existing.is_empty() => *rng.pick(&existing),
      _ => RuneId { block: 1, tx: 0 },
    });
  }
  // edicts
  let n_edicts = *rng.pick(&[0usize, 0, 1, 1, 2, 3, 6]);
  for _ in 0..n_edicts {
    let id = match rng.below(10) {
      0 | 1 => RuneId { block: 0, tx: 0 },
      2 if stone.mint.is_some() => stone.mint.unwrap(),
      3 => RuneId { block: 1 + rng.below(50), tx: rng.below(3) as u32 },
      _ if !ids.is_empty() => *rng.pick(&ids),
      _ => RuneId { block: 0, tx: 0 },
    };
    let balance = inputs.iter().filter_map(|a| model.runes.balances.get(&a.outpoint)).filter_map(|b| b.get(&(id.block, id.tx))).sum::<u128>();
    let amount = match rng.below(8) {
      0 | 1 => 0,
      2 => balance,
      3 => balance.saturating_add(1),
      4 => balance / 2,
      5 => 1,
      6 => u128::MAX,
      _ => rng.below_u128(balance.saturating_add(2)),
    };
    let output = match rng.below(6) {
      0 => outputs_with_stone, // split across all non-OP_RETURN outputs
      _ => rng.below(u64::from(outputs_with_stone)) as u32,
    };
    stone.edicts.push(Edict { id, amount, output });
  }
  if rng.chance(1, 3) {
    stone.pointer = Some(rng.below(u64::from(outputs_with_stone)) as u32);
  }
  // the runestone output, well-formed or damaged
  let stone_script = if stone_kind <= 4 {
    let mut ints = c25::integers_of(&stone);
    for _ in 0..rng.usize(1, 2) {
      c25::mutate(&mut ints, rng, outputs_with_stone);
    }
    let mut payload = Vec::new();
    for i in &ints {
      c25::leb(*i, &mut payload);
    }
    if rng.chance(1, 8) {
      payload.push(0x80); // bad varint
    }
    let mut script = c25::script_from_payload(&payload, rng);
    if rng.chance(1, 10) {
      script.push(0x51); // opcode flaw
    }
    ScriptBuf::from_bytes(script)
  } else {
    stone.encipher()
  };
  let at = rng.usize(0, output.len());
  output.insert(at, TxOut { value: Amount::ZERO, script_pubkey: stone_script });
  Some(g.finish(inputs, output, witnesses))
}
