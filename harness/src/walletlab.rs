//! Wallet laboratory: mock node (wallet RPCs) + recording JSON-RPC proxy +
//! in-process explorer + the real `ord` command line (this binary re-executed
//! under the name `ord`, which runs `ord::main()` on /repo's current tree).
//!
//! The harness populates the wallet by injecting blocks whose outputs pay
//! wallet addresses (cardinal, inscribed, runic), runs wallet commands, and
//! reads what happened at the RPC boundary (proxy log) and in the node
//! (mempool, locked set).

use crate::{explorer::Explorer, idx::IndexCfg, node::Node};
use bitcoin::{Address, Network, ScriptBuf, Transaction};
use serde_json::Value;
use std::{
  io::{Read, Write},
  net::{TcpListener, TcpStream},
  path::PathBuf,
  process::{Command, Stdio},
  sync::{Arc, Mutex},
  time::Duration,
};

#[derive(Clone, Debug)]
pub struct RpcCall {
  pub seq: usize,
  pub path: String,
  pub method: String,
  pub params: Value,
  pub result: Value,
  pub error: Value,
}

pub struct Proxy {
  pub port: u16,
  pub log: Arc<Mutex<Vec<RpcCall>>>,
}

fn read_http(stream: &mut TcpStream) -> Option<(String, Vec<u8>)> {
  let mut buf = Vec::new();
  let mut tmp = [0u8; 8192];
  let head_end = loop {
    if let Some(p) = buf.windows(4).position(|w| w == b"\r\n\r\n") {
      break p + 4;
    }
    let n = stream.read(&mut tmp).ok()?;
    if n == 0 {
      return None;
    }
    buf.extend_from_slice(&tmp[..n]);
  };
  let head = String::from_utf8_lossy(&buf[..head_end]).to_string();
  let len = head
    .lines()
    .find_map(|l| l.split_once(':').filter(|(k, _)| k.eq_ignore_ascii_case("content-length")).and_then(|(_, v)| v.trim().parse::<usize>().ok()));
  let mut body = buf[head_end..].to_vec();
  match len {
    Some(len) => {
      while body.len() < len {
        let n = stream.read(&mut tmp).ok()?;
        if n == 0 {
          break;
        }
        body.extend_from_slice(&tmp[..n]);
      }
    }
    None => {
      // response without a length: read to the end of the connection
      if head.starts_with("HTTP/") {
        loop {
          let n = stream.read(&mut tmp).ok()?;
          if n == 0 {
            break;
          }
          body.extend_from_slice(&tmp[..n]);
        }
      }
    }
  }
  Some((head, body))
}

impl Proxy {
  pub fn start(upstream_port: u16) -> Proxy {
    let listener = TcpListener::bind("127.0.0.1:0").unwrap();
    let port = listener.local_addr().unwrap().port();
    let log: Arc<Mutex<Vec<RpcCall>>> = Default::default();
    let log2 = log.clone();
    std::thread::spawn(move || {
      for client in listener.incoming() {
        let Ok(mut client) = client else { continue };
        let log = log2.clone();
        std::thread::spawn(move || {
          client.set_nodelay(true).ok();
          client.set_read_timeout(Some(Duration::from_secs(120))).ok();
          while let Some((head, body)) = read_http(&mut client) {
            let path = head.split(' ').nth(1).unwrap_or("").to_string();
            // one upstream connection per request, closed by the server
            let Ok(mut up) = TcpStream::connect(("127.0.0.1", upstream_port)) else { return };
            up.set_nodelay(true).ok();
            let mut lines: Vec<String> = head.trim_end().split("\r\n").filter(|l| !l.to_ascii_lowercase().starts_with("connection:")).map(|s| s.to_string()).collect();
            lines.push("Connection: close".into());
            let mut out = (lines.join("\r\n") + "\r\n\r\n").into_bytes();
            out.extend_from_slice(&body);
            if up.write_all(&out).is_err() {
              return;
            }
            let Some((rhead, rbody)) = read_http(&mut up) else { return };
            // record
            let req: Value = serde_json::from_slice(&body).unwrap_or(Value::Null);
            let resp: Value = serde_json::from_slice(&rbody).unwrap_or(Value::Null);
            let calls: Vec<(Value, Value)> = match (&req, &resp) {
              (Value::Array(rs), Value::Array(ps)) => rs.iter().cloned().zip(ps.iter().cloned()).collect(),
              _ => vec![(req.clone(), resp.clone())],
            };
            {
              let mut log = log.lock().unwrap();
              for (rq, rs) in calls {
                let seq = log.len();
                log.push(RpcCall { seq, path: path.clone(), method: rq["method"].as_str().unwrap_or("").to_string(), params: rq["params"].clone(), result: rs["result"].clone(), error: rs["error"].clone() });
              }
            }
            let mut lines: Vec<String> = rhead.trim_end().split("\r\n").filter(|l| !l.to_ascii_lowercase().starts_with("connection:") && !l.to_ascii_lowercase().starts_with("content-length:") && !l.to_ascii_lowercase().starts_with("transfer-encoding:")).map(|s| s.to_string()).collect();
            lines.push(format!("Content-Length: {}", rbody.len()));
            lines.push("Connection: keep-alive".into());
            let mut back = (lines.join("\r\n") + "\r\n\r\n").into_bytes();
            back.extend_from_slice(&rbody);
            if client.write_all(&back).is_err() {
              return;
            }
          }
        });
      }
    });
    Proxy { port, log }
  }

  pub fn calls(&self) -> Vec<RpcCall> {
    self.log.lock().unwrap().clone()
  }

  pub fn mark(&self) -> usize {
    self.log.lock().unwrap().len()
  }

  pub fn since(&self, mark: usize) -> Vec<RpcCall> {
    self.log.lock().unwrap()[mark..].to_vec()
  }
}

pub struct CliResult {
  pub status: Option<i32>,
  pub stdout: String,
  pub stderr: String,
}

impl CliResult {
  pub fn ok(&self) -> bool {
    self.status == Some(0)
  }

  pub fn json(&self) -> Option<Value> {
    serde_json::from_str(&self.stdout).ok()
  }

  pub fn panicked(&self) -> bool {
    self.stderr.contains("panicked at") || matches!(self.status, Some(101) | None)
  }
}

pub struct Lab {
  pub network: Network,
  pub node: Node,
  pub proxy: Proxy,
  pub explorer: Explorer,
  pub dir: PathBuf,
  pub ord: PathBuf,
}

impl Lab {
  pub fn new(scratch: &str, case: u64, cfg: &IndexCfg) -> anyhow::Result<Lab> {
    Self::on(Network::Regtest, scratch, case, cfg)
  }

  /// mockcore's `simulaterawtransaction` only recognises wallet addresses on
  /// mainnet, so the offer checks run there (as the repository's own tests do).
  pub fn on(network: Network, scratch: &str, case: u64, cfg: &IndexCfg) -> anyhow::Result<Lab> {
    let dir = PathBuf::from(format!("{}/wallet{}", if scratch.is_empty() { "/tmp/verif-scratch" } else { scratch }, case));
    let _ = std::fs::remove_dir_all(&dir);
    std::fs::create_dir_all(dir.join("server"))?;
    std::fs::create_dir_all(dir.join("cli"))?;
    let node = Node::new(network);
    let upstream_port: u16 = node.url().rsplit(':').next().unwrap().trim_end_matches('/').parse()?;
    let proxy = Proxy::start(upstream_port);
    let mut cfg = cfg.clone();
    cfg.integration_test = true;
    let explorer = Explorer::start(&node, &dir.join("server"), &cfg, &[], &[])?;
    // this binary under the name `ord`
    let ord = dir.join("ord");
    let _ = std::fs::remove_file(&ord);
    std::os::unix::fs::symlink(std::env::current_exe()?, &ord)?;
    Ok(Lab { network, node, proxy, explorer, dir, ord })
  }

  /// Bring the explorer's index to the node's tip.
  pub fn sync(&self) -> anyhow::Result<()> {
    self.explorer.index.update()
  }

  pub fn cli(&self, args: &[&str]) -> CliResult {
    let mut cmd = Command::new(&self.ord);
    cmd
      .env_clear()
      .env("ORD_INTEGRATION_TEST", "1")
      .env("RUST_BACKTRACE", "0")
      .env("HOME", &self.dir)
      .current_dir(&self.dir)
      .args(["--chain", if self.network == Network::Bitcoin { "mainnet" } else { "regtest" }, "--bitcoin-rpc-url"])
      .arg(format!("127.0.0.1:{}", self.proxy.port))
      .arg("--cookie-file")
      .arg(self.node.cookie_file())
      .arg("--datadir")
      .arg(self.dir.join("cli"))
      .args(args)
      .stdin(Stdio::null())
      .stdout(Stdio::piped())
      .stderr(Stdio::piped());
    let Ok(mut child) = cmd.spawn() else { return CliResult { status: None, stdout: String::new(), stderr: "spawn failed".into() } };
    // generous watchdog: a hanging command is inconclusive, never a verdict
    let start = std::time::Instant::now();
    loop {
      match child.try_wait() {
        Ok(Some(_)) => break,
        Ok(None) if start.elapsed() > Duration::from_secs(120) => {
          let _ = child.kill();
          break;
        }
        _ => std::thread::sleep(Duration::from_millis(5)),
      }
    }
    match child.wait_with_output() {
      Ok(o) => CliResult { status: o.status.code(), stdout: String::from_utf8_lossy(&o.stdout).to_string(), stderr: String::from_utf8_lossy(&o.stderr).to_string() },
      Err(e) => CliResult { status: None, stdout: String::new(), stderr: e.to_string() },
    }
  }

  /// `ord wallet --server-url <explorer> <args>`
  pub fn wallet(&self, args: &[&str]) -> CliResult {
    let url = format!("http://127.0.0.1:{}", self.explorer.port);
    let mut all = vec!["wallet", "--server-url", &url];
    all.extend_from_slice(args);
    self.cli(&all)
  }

  pub fn new_wallet_address(&self) -> Address {
    self.node.handle.state().new_address(false)
  }

  pub fn wallet_script(&self) -> ScriptBuf {
    self.new_wallet_address().script_pubkey()
  }

  pub fn mempool(&self) -> Vec<Transaction> {
    self.node.handle.state().mempool.clone()
  }

  pub fn clear_mempool(&self) {
    self.node.handle.state().mempool.clear();
  }

  pub fn stop(&self) {
    self.explorer.stop();
  }
}

// ------------------------------------------------------------- world builder

use bitcoin::{Amount, OutPoint, Sequence, TxIn, TxOut, Witness, absolute::LockTime, transaction::Version};
use ord::InscriptionId;
use ordinals::{Edict, Etching, RuneId, Runestone, Terms};

pub fn bank_script() -> ScriptBuf {
  crate::blockgen::p2wpkh_script(0x77)
}

/// A script nobody in the test owns (a counterparty).
pub fn foreign_script(tag: u8) -> ScriptBuf {
  crate::blockgen::p2tr_script(tag)
}

impl Lab {
  fn coinbase(&self, height: u32, value: u64, script: ScriptBuf) -> Transaction {
    let mut script_sig = vec![0x03];
    script_sig.extend(&height.to_le_bytes()[..3]);
    Transaction {
      version: Version(2),
      lock_time: LockTime::ZERO,
      input: vec![TxIn { previous_output: OutPoint::null(), script_sig: ScriptBuf::from_bytes(script_sig), sequence: Sequence::MAX, witness: Witness::from_slice(&[[0u8; 32]]) }],
      output: vec![TxOut { value: Amount::from_sat(value), script_pubkey: script }],
    }
  }

  /// Mine one block containing `txs`; the coinbase pays the bank. Returns the
  /// bank's new outpoint.
  pub fn mine(&mut self, txs: Vec<Transaction>) -> OutPoint {
    let height = self.node.height() + 1;
    // fees are left unclaimed: the coinbase takes the subsidy only
    let cb = self.coinbase(height, 50 * 100_000_000, bank_script());
    let op = OutPoint { txid: cb.compute_txid(), vout: 0 };
    let mut txdata = vec![cb];
    txdata.extend(txs);
    self.node.push_block(txdata);
    op
  }

  pub fn mine_empty(&mut self, n: u32) -> Vec<OutPoint> {
    (0..n).map(|_| self.mine(Vec::new())).collect()
  }

  pub fn spend(&self, inputs: &[(OutPoint, Witness)], outputs: Vec<TxOut>) -> Transaction {
    Transaction {
      version: Version(2),
      lock_time: LockTime::ZERO,
      input: inputs.iter().map(|(o, w)| TxIn { previous_output: *o, script_sig: ScriptBuf::new(), sequence: Sequence::ENABLE_RBF_NO_LOCKTIME, witness: w.clone() }).collect(),
      output: outputs,
    }
  }

  /// Pay `values` to fresh wallet addresses out of one bank output (the rest is fee).
  pub fn pay_wallet(&mut self, bank: OutPoint, values: &[u64]) -> Vec<OutPoint> {
    let outputs: Vec<TxOut> = values.iter().map(|v| TxOut { value: Amount::from_sat(*v), script_pubkey: self.wallet_script() }).collect();
    let tx = self.spend(&[(bank, Witness::new())], outputs);
    let txid = tx.compute_txid();
    self.mine(vec![tx]);
    (0..values.len()).map(|i| OutPoint { txid, vout: i as u32 }).collect()
  }

  /// Reveal one inscription out of a bank output into `script`.
  pub fn inscribe_to(&mut self, bank: OutPoint, script: ScriptBuf, value: u64, body: &[u8]) -> (OutPoint, InscriptionId) {
    let inscription = ord::Inscription { content_type: Some(b"text/plain;charset=utf-8".to_vec()), body: Some(body.to_vec()), ..Default::default() };
    let builder = bitcoin::script::Builder::new().push_slice([7u8; 32]).push_opcode(bitcoin::opcodes::all::OP_CHECKSIG);
    let reveal = inscription.append_reveal_script_to_builder(builder).into_script();
    let mut w = Witness::new();
    w.push(reveal.as_bytes());
    w.push([0xc0u8; 33]);
    let tx = self.spend(&[(bank, w)], vec![TxOut { value: Amount::from_sat(value), script_pubkey: script }]);
    let txid = tx.compute_txid();
    self.mine(vec![tx]);
    (OutPoint { txid, vout: 0 }, InscriptionId { txid, index: 0 })
  }

  /// Etch a rune with a reserved name; `distribution` = (script, sat value, rune amount) per output.
  pub fn etch(&mut self, bank: OutPoint, distribution: &[(ScriptBuf, u64, u128)], divisibility: u8, terms: Option<Terms>) -> (RuneId, Vec<OutPoint>) {
    let premine: u128 = distribution.iter().map(|d| d.2).sum();
    let runestone = Runestone {
      edicts: distribution.iter().enumerate().map(|(i, d)| Edict { id: RuneId { block: 0, tx: 0 }, amount: d.2, output: i as u32 }).collect(),
      etching: Some(Etching { divisibility: Some(divisibility), premine: Some(premine), rune: None, spacers: None, symbol: Some('$'), terms, turbo: false }),
      mint: None,
      pointer: None,
    };
    let mut outputs: Vec<TxOut> = distribution.iter().map(|d| TxOut { value: Amount::from_sat(d.1), script_pubkey: d.0.clone() }).collect();
    outputs.push(TxOut { value: Amount::ZERO, script_pubkey: runestone.encipher() });
    let tx = self.spend(&[(bank, Witness::new())], outputs);
    let txid = tx.compute_txid();
    self.mine(vec![tx]);
    let id = RuneId { block: u64::from(self.node.height()), tx: 1 };
    (id, (0..distribution.len()).map(|i| OutPoint { txid, vout: i as u32 }).collect())
  }

  /// Spend `inputs` into one output (no runestone: all runes go to it).
  pub fn merge(&mut self, inputs: &[OutPoint], script: ScriptBuf, value: u64) -> OutPoint {
    let tx = self.spend(&inputs.iter().map(|o| (*o, Witness::new())).collect::<Vec<_>>(), vec![TxOut { value: Amount::from_sat(value), script_pubkey: script }]);
    let txid = tx.compute_txid();
    self.mine(vec![tx]);
    OutPoint { txid, vout: 0 }
  }

  pub fn is_wallet_script(&self, script: &ScriptBuf) -> bool {
    match Address::from_script(script, self.network) {
      Ok(a) => self.node.handle.state().is_wallet_address(&a),
      Err(_) => false,
    }
  }

  /// Output of a confirmed or mempool transaction.
  pub fn txout(&self, outpoint: &OutPoint) -> Option<TxOut> {
    let state = self.node.handle.state();
    state.transactions.get(&outpoint.txid).or_else(|| state.mempool.iter().find(|t| t.compute_txid() == outpoint.txid)).and_then(|t| t.output.get(outpoint.vout as usize).cloned())
  }

  /// Mine whatever the wallet broadcast.
  pub fn mine_mempool(&mut self) -> Vec<Transaction> {
    let txs = self.mempool();
    self.clear_mempool();
    self.mine(txs.clone());
    txs
  }
}
