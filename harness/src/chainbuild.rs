//! Pre-built chains: generate all blocks once (against a throw-away node and
//! the reference models), then replay the very same blocks into fresh nodes
//! under different schedules / faults.

use crate::{
  blockgen::{Gen, GenCfg},
  model::Model,
  node::Node,
  rng::Rng,
};
use bitcoin::{Block, Network};

pub struct BuiltChain {
  pub network: Network,
  /// blocks at heights 1..=n
  pub blocks: Vec<Block>,
  pub model: Model,
  pub bgen: Gen,
}

pub fn build_chain(rng: &mut Rng, network: Network, gencfg: &GenCfg, n_blocks: u32) -> BuiltChain {
  let mut node = Node::new(network);
  let mut model = Model::new();
  model.runes.network = network;
  model.runes.first_rune_height = ordinals::Rune::first_rune_height(network);
  model.runes.keep_log = false;
  model.track_inscriptions = gencfg.dup_coinbase_permille == 0;
  model.track_runes = gencfg.dup_coinbase_permille == 0;
  model.apply_block(&node.block_at(0).unwrap());
  let mut bgen = Gen::new(gencfg.clone());
  let mut blocks = Vec::new();
  for _ in 0..n_blocks {
    let height = model.height();
    let txdata = bgen.block(rng, &model, height);
    let block = node.push_block(txdata);
    model.apply_block(&block);
    blocks.push(block);
  }
  BuiltChain { network, blocks, model, bgen }
}

/// Extend an existing chain state (model + generator) by `n` blocks on `node`.
pub fn extend(rng: &mut Rng, node: &mut Node, model: &mut Model, bgen: &mut Gen, n: u32) -> Vec<Block> {
  let mut out = Vec::new();
  for _ in 0..n {
    let height = model.height();
    let txdata = bgen.block(rng, model, height);
    let block = node.push_block(txdata);
    model.apply_block(&block);
    out.push(block);
  }
  out
}

pub fn replay_into(node: &mut Node, blocks: &[Block]) {
  for b in blocks {
    node.push_existing(b);
  }
}
