//! Minimal arbitrary-precision unsigned integer, used by the reference
//! evaluators so that they never share ord's machine-integer arithmetic.

use std::cmp::Ordering;

#[derive(Clone, Debug, PartialEq, Eq, Default)]
pub struct Big(Vec<u32>); // little-endian limbs, no trailing zero limbs

impl Big {
  pub fn zero() -> Self {
    Big(Vec::new())
  }

  pub fn from_u128(mut n: u128) -> Self {
    let mut v = Vec::new();
    while n > 0 {
      v.push(n as u32);
      n >>= 32;
    }
    Big(v)
  }

  pub fn from_u64(n: u64) -> Self {
    Self::from_u128(n.into())
  }

  fn trim(mut self) -> Self {
    while self.0.last() == Some(&0) {
      self.0.pop();
    }
    self
  }

  pub fn is_zero(&self) -> bool {
    self.0.is_empty()
  }

  pub fn to_u128(&self) -> Option<u128> {
    if self.0.len() > 4 {
      return None;
    }
    let mut n = 0u128;
    for (i, limb) in self.0.iter().enumerate() {
      n |= u128::from(*limb) << (32 * i);
    }
    Some(n)
  }

  pub fn to_u64(&self) -> Option<u64> {
    self.to_u128().and_then(|n| u64::try_from(n).ok())
  }

  pub fn add(&self, other: &Big) -> Big {
    let mut out = Vec::with_capacity(self.0.len().max(other.0.len()) + 1);
    let mut carry = 0u64;
    for i in 0..self.0.len().max(other.0.len()) {
      let a = u64::from(*self.0.get(i).unwrap_or(&0));
      let b = u64::from(*other.0.get(i).unwrap_or(&0));
      let s = a + b + carry;
      out.push(s as u32);
      carry = s >> 32;
    }
    if carry > 0 {
      out.push(carry as u32);
    }
    Big(out).trim()
  }

  /// self - other, None if negative
  pub fn sub(&self, other: &Big) -> Option<Big> {
    if self.cmp(other) == Ordering::Less {
      return None;
    }
    let mut out = Vec::with_capacity(self.0.len());
    let mut borrow = 0i64;
    for i in 0..self.0.len() {
      let a = i64::from(self.0[i]);
      let b = i64::from(*other.0.get(i).unwrap_or(&0));
      let mut d = a - b - borrow;
      if d < 0 {
        d += 1 << 32;
        borrow = 1;
      } else {
        borrow = 0;
      }
      out.push(d as u32);
    }
    Some(Big(out).trim())
  }

  pub fn mul(&self, other: &Big) -> Big {
    if self.is_zero() || other.is_zero() {
      return Big::zero();
    }
    let mut out = vec![0u32; self.0.len() + other.0.len() + 1];
    for (i, a) in self.0.iter().enumerate() {
      let mut carry = 0u64;
      for (j, b) in other.0.iter().enumerate() {
        let cur = u64::from(out[i + j]) + u64::from(*a) * u64::from(*b) + carry;
        out[i + j] = cur as u32;
        carry = cur >> 32;
      }
      let mut k = i + other.0.len();
      while carry > 0 {
        let cur = u64::from(out[k]) + carry;
        out[k] = cur as u32;
        carry = cur >> 32;
        k += 1;
      }
    }
    Big(out).trim()
  }

  pub fn mul_small(&self, m: u32) -> Big {
    self.mul(&Big::from_u64(m.into()))
  }

  pub fn add_small(&self, a: u32) -> Big {
    self.add(&Big::from_u64(a.into()))
  }

  pub fn divrem_small(&self, d: u32) -> (Big, u32) {
    let mut out = vec![0u32; self.0.len()];
    let mut rem = 0u64;
    for i in (0..self.0.len()).rev() {
      let cur = (rem << 32) | u64::from(self.0[i]);
      out[i] = (cur / u64::from(d)) as u32;
      rem = cur % u64::from(d);
    }
    (Big(out).trim(), rem as u32)
  }

  pub fn pow10(e: u32) -> Big {
    let mut b = Big::from_u64(1);
    for _ in 0..e {
      b = b.mul_small(10);
    }
    b
  }

  pub fn pow(base: u32, e: u32) -> Big {
    let mut b = Big::from_u64(1);
    for _ in 0..e {
      b = b.mul_small(base);
    }
    b
  }

  pub fn shl(&self, bits: u32) -> Big {
    let mut b = self.clone();
    for _ in 0..bits {
      b = b.mul_small(2);
    }
    b
  }

  /// Parse a non-empty string of ASCII decimal digits.
  pub fn from_dec(s: &str) -> Option<Big> {
    if s.is_empty() || !s.bytes().all(|b| b.is_ascii_digit()) {
      return None;
    }
    let mut b = Big::zero();
    for c in s.bytes() {
      b = b.mul_small(10).add_small(u32::from(c - b'0'));
    }
    Some(b)
  }

  pub fn to_dec(&self) -> String {
    if self.is_zero() {
      return "0".into();
    }
    let mut digits = Vec::new();
    let mut cur = self.clone();
    while !cur.is_zero() {
      let (q, r) = cur.divrem_small(10);
      digits.push(b'0' + r as u8);
      cur = q;
    }
    digits.reverse();
    String::from_utf8(digits).unwrap()
  }
}

impl PartialOrd for Big {
  fn partial_cmp(&self, other: &Big) -> Option<Ordering> {
    Some(self.cmp(other))
  }
}

impl Ord for Big {
  fn cmp(&self, other: &Big) -> Ordering {
    if self.0.len() != other.0.len() {
      return self.0.len().cmp(&other.0.len());
    }
    for i in (0..self.0.len()).rev() {
      if self.0[i] != other.0[i] {
        return self.0[i].cmp(&other.0[i]);
      }
    }
    Ordering::Equal
  }
}

#[cfg(test)]
mod tests {
  use super::*;

  #[test]
  fn basics() {
    let a = Big::from_u128(u128::MAX);
    let b = a.add(&Big::from_u64(1));
    assert_eq!(b.to_u128(), None);
    assert_eq!(b.to_dec(), "340282366920938463463374607431768211456");
    assert_eq!(b.sub(&Big::from_u64(1)).unwrap().to_u128(), Some(u128::MAX));
    assert_eq!(
      Big::from_dec("340282366920938463463374607431768211456").unwrap(),
      b
    );
    assert_eq!(Big::pow10(20).to_dec(), "100000000000000000000");
    let (q, r) = Big::pow10(20).add_small(7).divrem_small(10);
    assert_eq!(q, Big::pow10(19));
    assert_eq!(r, 7);
    assert_eq!(
      Big::from_u128(12345678901234567890).mul(&Big::from_u128(98765432109876543210)).to_dec(),
      "1219326311370217952237463801111263526900"
    );
    assert!(Big::from_u64(5) < Big::from_u64(6));
    assert!(Big::from_u64(5).sub(&Big::from_u64(6)).is_none());
  }
}
