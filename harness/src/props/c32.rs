//! C32 — rune names ↔ integers (modified base-26), spaced runes, commitments,
//! reserved range. Depends only on `ordinals` (also runs under Miri).

use crate::{big::Big, ctx::Ctx, report::{Report, catch}, rng::Rng};
use ordinals::{Rune, SpacedRune};
use serde_json::json;

/// Reference: bijective base-26 numeral of n (A=0 … Z=25, AA=26 …).
pub fn ref_name(n: u128) -> String {
  let mut x = Big::from_u128(n).add_small(1);
  let mut out = Vec::new();
  while !x.is_zero() {
    let xm1 = x.sub(&Big::from_u64(1)).unwrap();
    let (q, r) = xm1.divrem_small(26);
    out.push(b'A' + r as u8);
    x = q;
  }
  out.reverse();
  String::from_utf8(out).unwrap()
}

/// Reference value of a name made of A–Z (None = does not fit 128 bits).
pub fn ref_value(name: &str) -> Option<u128> {
  // value + 1 = sum_{i} (d_i + 1) * 26^(len-1-i)
  let mut x = Big::zero();
  for c in name.bytes() {
    x = x.mul_small(26).add_small(u32::from(c - b'A') + 1);
  }
  x.sub(&Big::from_u64(1))?.to_u128()
}

fn first_name_of_len(len: usize) -> Big {
  // "AAA…A" (len letters) = sum_{i=1}^{len-1} 26^i
  let mut total = Big::zero();
  for i in 1..len {
    total = total.add(&Big::pow(26, i as u32));
  }
  total
}

fn check_rune(n: u128, rep: &mut Report, replay: &serde_json::Value) {
  rep.eval();
  let r = catch(|| {
    let printed = Rune(n).to_string();
    let parsed = printed.parse::<Rune>();
    (printed, parsed, Rune(n).commitment(), Rune(n).is_reserved())
  });
  let (printed, parsed, commitment, reserved) = match r {
    Ok(x) => x,
    Err(p) => {
      rep.violation("C32/rune/panic", format!("Rune({n}): {p}"), json!({"replay": replay, "n": n.to_string()}));
      return;
    }
  };
  let want = ref_name(n);
  rep.distinct(&("rune", want.len(), 128 - n.leading_zeros()));
  if printed != want {
    rep.violation("C32/rune/print-not-base26", format!("Rune({n}) prints {printed}, reference {want}"), json!({"replay": replay, "n": n.to_string()}));
  }
  if parsed != Ok(Rune(n)) {
    rep.violation("C32/rune/print-parse", format!("Rune({n}) prints {printed} which parses to {parsed:?}"), json!({"replay": replay, "n": n.to_string()}));
  }
  let le = n.to_le_bytes();
  let mut end = 16;
  while end > 0 && le[end - 1] == 0 {
    end -= 1;
  }
  if commitment != le[..end] {
    rep.violation("C32/rune/commitment", format!("Rune({n}).commitment() = {commitment:?}"), json!({"replay": replay, "n": n.to_string()}));
  }
  let first27 = first_name_of_len(27);
  let want_reserved = Big::from_u128(n) >= first27;
  if reserved != want_reserved {
    rep.violation("C32/rune/reserved", format!("Rune({n}).is_reserved() = {reserved}, name has {} letters", want.len()), json!({"replay": replay, "n": n.to_string()}));
  }
  rep.count("rune_ok");
}

fn check_name(name: &str, rep: &mut Report, replay: &serde_json::Value) {
  rep.eval();
  let got = match catch(|| name.parse::<Rune>()) {
    Ok(g) => g,
    Err(p) => {
      rep.violation("C32/name/panic", format!("{name:?}: {p}"), json!({"replay": replay, "name": name}));
      return;
    }
  };
  let want = ref_value(name);
  rep.distinct(&("name", name.len(), want.is_some()));
  match (want, got) {
    (Some(w), Ok(Rune(g))) if w == g => rep.count("name_ok"),
    (None, Err(_)) => rep.count("name_rejected_range"),
    (w, g) => rep.violation(
      "C32/name/parse-not-base26",
      format!("{name:?} parses to {g:?}, reference {w:?}"),
      json!({"replay": replay, "name": name}),
    ),
  }
}

fn check_spaced(n: u128, spacers: u32, rep: &mut Report, replay: &serde_json::Value) {
  rep.eval();
  let sr = SpacedRune::new(Rune(n), spacers);
  let r = catch(|| {
    let printed = sr.to_string();
    let parsed = printed.parse::<SpacedRune>();
    (printed, parsed)
  });
  let (printed, parsed) = match r {
    Ok(x) => x,
    Err(p) => {
      rep.violation("C32/spaced/panic", format!("{sr:?}: {p}"), json!({"replay": replay, "n": n.to_string(), "spacers": spacers}));
      return;
    }
  };
  let letters = ref_name(n).len() as u32;
  let mask = if letters - 1 >= 32 { u32::MAX } else { (1u32 << (letters - 1)) - 1 };
  let want = SpacedRune::new(Rune(n), spacers & mask);
  rep.distinct(&("spaced", letters, (spacers & mask).count_ones(), spacers > mask));
  // reference rendering
  let name = ref_name(n);
  let mut want_printed = String::new();
  for (i, c) in name.chars().enumerate() {
    want_printed.push(c);
    if (i as u32) < letters - 1 && i < 32 && spacers & (1 << i) != 0 {
      want_printed.push('•');
    }
  }
  if printed != want_printed {
    rep.violation("C32/spaced/print", format!("{sr:?} prints {printed}, reference {want_printed}"), json!({"replay": replay, "n": n.to_string(), "spacers": spacers}));
  }
  if parsed != Ok(want) {
    rep.violation("C32/spaced/print-parse", format!("{sr:?} prints {printed}, parses to {parsed:?}, expected {want:?}"), json!({"replay": replay, "n": n.to_string(), "spacers": spacers}));
  } else {
    rep.count("spaced_ok");
  }
  // '.' is accepted as a spacer too and must denote the same thing
  let dotted = printed.replace('•', ".");
  match catch(|| dotted.parse::<SpacedRune>()) {
    Ok(Ok(p)) if p == want => {}
    other => rep.violation("C32/spaced/dot-form", format!("{dotted} parses to {other:?}, expected {want:?}"), json!({"replay": replay, "n": n.to_string(), "spacers": spacers})),
  }
}

fn gen_n(rng: &mut Rng) -> u128 {
  match rng.below(4) {
    0 => rng.next_u128(),
    1 => rng.log_u128(),
    2 => {
      // around a power of 26 / a length boundary
      let k = rng.below(28) as usize + 1;
      let base = first_name_of_len(k).to_u128().unwrap_or(u128::MAX);
      base.wrapping_add(rng.below(5) as u128).wrapping_sub(2)
    }
    _ => rng.edge_u128(),
  }
}

pub fn run(ctx: &Ctx, rep: &mut Report) {
  let miri = cfg!(miri);
  if ctx.deterministic_part() {
    let replay = ctx.replay_info(u64::MAX);
    let small = if miri { 26 * 27 } else { 26u128.pow(4) + 26u128.pow(3) + 800 };
    for n in 0..small {
      check_rune(n, rep, &replay);
    }
    rep.count("exhaustive_below_26^4");
    for k in 1..=28usize {
      let first = first_name_of_len(k);
      for d in 0..5u32 {
        // first-2 .. first+2
        if let Some(v) = first.add_small(d).sub(&Big::from_u64(2)).and_then(|b| b.to_u128()) {
          check_rune(v, rep, &replay);
        }
      }
      // names at the boundary, as strings
      for name in ["A".repeat(k), "Z".repeat(k), format!("{}B", "A".repeat(k - 1)), format!("{}Y", "Z".repeat(k - 1))] {
        check_name(&name, rep, &replay);
      }
    }
    for n in [u128::MAX, u128::MAX - 1, u128::MAX - 26, Rune::RESERVED, Rune::RESERVED - 1, Rune::RESERVED + 1] {
      check_rune(n, rep, &replay);
    }
    // the largest representable name and its neighbours as strings
    let max_name = ref_name(u128::MAX);
    check_name(&max_name, rep, &replay);
    let mut bytes = max_name.clone().into_bytes();
    *bytes.last_mut().unwrap() += 1; // one above u128::MAX
    check_name(std::str::from_utf8(&bytes).unwrap(), rep, &replay);
    check_name(&"A".repeat(29), rep, &replay);
    check_name(&"Z".repeat(28), rep, &replay);
    // all spacer masks for short names
    let max_letters = if miri { 5 } else { 12 };
    for letters in 1..=max_letters {
      let n = first_name_of_len(letters).to_u128().unwrap() + 7 % 26u128.pow(letters as u32).max(1);
      for spacers in 0..(1u32 << letters) {
        check_spaced(n, spacers, rep, &replay);
      }
    }
    rep.count("exhaustive_spacer_masks_le_12_letters");
  }
  let max = if miri { 200 } else { u64::MAX };
  for case in ctx.cases(max) {
    let mut rng = ctx.rng(case);
    let replay = ctx.replay_info(case);
    for _ in 0..(if miri { 1 } else { 64 }) {
      let n = gen_n(&mut rng);
      check_rune(n, rep, &replay);
      let spacers = match rng.below(4) {
        0 => rng.next_u32(),
        1 => 1u32 << rng.below(32),
        2 => rng.next_u32() & rng.next_u32() & rng.next_u32(),
        _ => u32::MAX >> rng.below(32),
      };
      check_spaced(n, spacers, rep, &replay);
      let len = rng.usize(1, 30);
      let name: String = (0..len).map(|_| (b'A' + rng.below(26) as u8) as char).collect();
      // bias towards the top of the range for long names
      let name = if len >= 28 && rng.chance(1, 2) { format!("B{}", &name[1..]) } else { name };
      check_name(&name, rep, &replay);
      if rep.want_sample() {
        rep.sample(json!({"n": n.to_string(), "printed": Rune(n).to_string(), "spacers": spacers, "spaced": SpacedRune::new(Rune(n), spacers).to_string(), "name": name, "parsed": format!("{:?}", name.parse::<Rune>())}));
      }
    }
  }
}
