//! C15 — optional indexes do not change inscription or rune results; the
//! node-fetch path for spent values agrees with local tracking.
//!
//! One pre-built chain is indexed under all 8 combinations of the sat /
//! address / transaction indexes (inscriptions and runes on), with the first
//! inscription / rune height at 0 (everything tracked locally) or — through
//! hook H5 — at 15..30, which makes the configurations without a full UTXO
//! index fetch input values from the node. Oracle: equality of the projection
//! of the tables onto inscription results (sat-derived charm bits masked, sat
//! dropped) and rune tables.

use crate::{
  blockgen::GenCfg,
  ctx::Ctx,
  hooks::Hooks,
  idx::IndexCfg,
  node::Node,
  report::{Report, catch, panic_signature},
};
use bitcoin::Network;
use ord::Index;
use ordinals::Charm;
use serde_json::json;
use std::collections::BTreeMap;

fn sat_derived_mask() -> u16 {
  [Charm::Coin, Charm::Uncommon, Charm::Rare, Charm::Epic, Charm::Legendary, Charm::Mythic, Charm::Nineball, Charm::Palindrome].iter().fold(0, |m, c| m | c.flag())
}

/// The projection: table name -> sorted rows.
pub type Projection = BTreeMap<&'static str, Vec<String>>;

pub fn projection(index: &Index) -> anyhow::Result<Projection> {
  let t = index.verif_inscription_tables()?;
  let mask = !sat_derived_mask();
  let mut p: Projection = BTreeMap::new();
  p.insert(
    "inscription entries (id, number, seq, height, fee, parents, hidden, timestamp, charms without sat-derived bits)",
    t.entries
      .iter()
      .map(|e| format!("{} number={} seq={} height={} fee={} parents={:?} hidden={} ts={} charms={:?}", e.id, e.inscription_number, e.sequence_number, e.height, e.fee, e.parents, e.hidden, e.timestamp, Charm::charms(e.charms & mask)))
      .collect(),
  );
  p.insert("inscription locations", t.satpoints.iter().map(|(s, sp)| format!("#{s} at {sp}")).collect());
  p.insert("id -> sequence number", t.id_to_sequence_number.iter().map(|(id, s)| format!("{id} -> {s}")).collect());
  p.insert("number -> sequence number", t.number_to_sequence_number.iter().map(|(n, s)| format!("{n} -> {s}")).collect());
  p.insert("children", t.children.iter().map(|(a, b)| format!("{a} -> {b}")).collect());
  p.insert("collections", t.collection_to_latest_child.iter().map(|(a, b)| format!("{a} latest {b}")).collect());
  p.insert("height -> last sequence number", t.height_to_last_sequence_number.iter().map(|(a, b)| format!("{a}: {b}")).collect());
  // blessed, cursed, unbound inscriptions; runes, reserved runes
  p.insert("statistics (blessed, cursed, unbound, runes, reserved)", t.statistics.iter().filter(|(k, _)| [1u64, 3, 16, 13, 12].contains(k)).map(|(k, v)| format!("{k}={v}")).collect());
  p.insert("rune entries", index.runes()?.iter().map(|(id, e)| format!("{id}: {e:?}")).collect());
  let mut balances: Vec<String> = index.get_rune_balances()?.iter().map(|(op, l)| format!("{op}: {l:?}")).collect();
  balances.sort();
  p.insert("rune balances", balances);
  Ok(p)
}

fn first_difference(a: &Projection, b: &Projection) -> Option<(&'static str, String)> {
  for (table, rows) in a {
    let other = b.get(table).cloned().unwrap_or_default();
    if *rows != other {
      let n = rows.len().max(other.len());
      for i in 0..n {
        if rows.get(i) != other.get(i) {
          return Some((table, format!("row {i}: {:?} vs {:?} ({} vs {} rows)", rows.get(i), other.get(i), rows.len(), other.len())));
        }
      }
    }
  }
  None
}

const NULL_OUTPOINT: &str = "0000000000000000000000000000000000000000000000000000000000000000:4294967295:";

/// True when the two projections differ *only* in the offsets of inscriptions
/// that both place in the lost-sats pseudo-output (same sequence numbers, same
/// null outpoint): the documented consequence of counting lost sats from the
/// first inscription height instead of from genesis when the sat index is off.
fn differ_only_in_lost_offsets(a: &Projection, b: &Projection) -> bool {
  let mut any = false;
  for (table, rows) in a {
    let other = b.get(table).cloned().unwrap_or_default();
    if *rows == other {
      continue;
    }
    if *table != "inscription locations" || rows.len() != other.len() {
      return false;
    }
    for (x, y) in rows.iter().zip(other.iter()) {
      if x == y {
        continue;
      }
      match (x.split_once(NULL_OUTPOINT), y.split_once(NULL_OUTPOINT)) {
        (Some((px, _)), Some((py, _))) if px == py => any = true,
        _ => return false,
      }
    }
  }
  any && b.keys().all(|k| a.contains_key(k))
}

pub fn run(ctx: &Ctx, rep: &mut Report) {
  let _hooks = Hooks::install();
  let scratch = if ctx.scratch.is_empty() { "/tmp/verif-scratch".to_string() } else { ctx.scratch.clone() };
  for case in ctx.cases(u64::MAX) {
    let mut rng = ctx.rng(case);
    let replay = ctx.replay_info(case);
    let mut gencfg = GenCfg::default();
    gencfg.w_transfer = 5;
    gencfg.w_reveal = 5;
    gencfg.w_rune = 3;
    gencfg.max_txs = *rng.pick(&[3usize, 6]);
    let n_blocks = if ctx.thorough() { rng.range(60, 160) } else { rng.range(35, 80) } as u32;
    let first_height: Option<u32> = if rng.chance(2, 3) { Some(rng.range(12, 30) as u32) } else { None };
    // Built block by block so that "sweeper" transactions can be added after
    // the first indexed height: one transaction spending 11-45 outputs created
    // before that height (their values have to be fetched from the node, in one
    // or several batches), with a reveal on a non-first input, so that the
    // inscription's position depends on the values and order of what was fetched.
    let chain = {
      use crate::{blockgen::Gen, model::Model};
      let mut cnode = Node::new(Network::Regtest);
      let mut model = Model::new();
      model.runes.network = Network::Regtest;
      model.runes.first_rune_height = 0;
      model.runes.keep_log = false;
      model.apply_block(&cnode.block_at(0).unwrap());
      let mut bgen = Gen::new(gencfg.clone());
      let mut blocks = Vec::new();
      let fh = first_height.unwrap_or(0);
      let mut sweeps = if first_height.is_some() { rng.usize(1, 3) } else { 0 };
      for _ in 0..n_blocks {
        let height = model.height();
        // before the first indexed height: many small outputs to sweep later
        if first_height.is_some() && height < fh {
          bgen.cfg.w_transfer = 12;
          bgen.cfg.max_txs = 8;
        } else {
          bgen.cfg.w_transfer = gencfg.w_transfer;
          bgen.cfg.max_txs = gencfg.max_txs;
        }
        let mut txdata = bgen.block(&mut rng, &model, height);
        if sweeps > 0 && height > fh && rng.chance(1, 3) {
          let spent: std::collections::BTreeSet<bitcoin::OutPoint> = txdata.iter().flat_map(|t| t.input.iter().map(|i| i.previous_output)).collect();
          let mut old: Vec<_> = bgen.available(&model, height).into_iter().filter(|a| a.height < fh && a.value > 0 && !spent.contains(&a.outpoint)).collect();
          rng.shuffle(&mut old);
          old.truncate(rng.usize(11, 45));
          if old.len() >= 11 {
            let total: u64 = old.iter().map(|a| a.value).sum();
            let j = rng.usize(1, old.len() - 1);
            let mut witnesses = vec![bitcoin::Witness::new(); old.len()];
            let inscription = ord::Inscription { content_type: Some(b"text/plain".to_vec()), body: Some(b"swept".to_vec()), ..Default::default() };
            let script = inscription.append_reveal_script_to_builder(bitcoin::script::Builder::new().push_slice([7u8; 32]).push_opcode(bitcoin::opcodes::all::OP_CHECKSIG)).into_script();
            witnesses[j].push(script.as_bytes());
            witnesses[j].push([0xc0u8; 33]);
            let fee = rng.below(total.min(5000) + 1);
            let outputs = vec![
              bitcoin::TxOut { value: bitcoin::Amount::from_sat((total - fee) / 2), script_pubkey: bgen.scripts[0].clone() },
              bitcoin::TxOut { value: bitcoin::Amount::from_sat(total - fee - (total - fee) / 2), script_pubkey: bgen.scripts[1].clone() },
            ];
            txdata.push(bgen.finish(old.clone(), outputs, witnesses));
            sweeps -= 1;
            rep.count("sweeper_transactions");
            rep.max("max_inputs_fetched_by_one_sweeper", old.len() as u64);
          }
        }
        let block = cnode.push_block(txdata);
        model.apply_block(&block);
        blocks.push(block);
      }
      crate::chainbuild::BuiltChain { network: Network::Regtest, blocks, model, bgen }
    };
    // how many transactions one getrawtransaction batch may carry
    let rpc_limit = *rng.pick(&[None, None, Some(1u32), Some(2), Some(4)]);
    // same override for every configuration of this case
    ord::verif::set_first_heights(first_height, first_height);
    let dir = std::path::PathBuf::from(format!("{scratch}/c15-{case}"));
    let _ = std::fs::remove_dir_all(&dir);
    let chunking = rng.below(3);
    let mut reference: Option<(String, Projection)> = None;
    let mut sats_of_reference = false;
    for bits in 0..8u32 {
      let mut cfg = IndexCfg::all();
      cfg.sats = bits & 1 != 0;
      cfg.addresses = bits & 2 != 0;
      cfg.transactions = bits & 4 != 0;
      cfg.commit_interval = Some(*rng.pick(&[1usize, 3, 5000]));
      cfg.bitcoin_rpc_limit = rpc_limit;
      let d = dir.join(format!("cfg{bits}"));
      std::fs::create_dir_all(&d).unwrap();
      let mut node = Node::new(Network::Regtest);
      let rp = json!({"replay": replay, "config": cfg.label(), "first_inscription_and_rune_height": first_height, "blocks": n_blocks});
      rep.eval();
      let outcome = catch(|| -> anyhow::Result<(Projection, bool)> {
        let index = cfg.open(&node, &d)?;
        let mut fed = 0usize;
        while fed < chain.blocks.len() {
          let c = match chunking {
            0 => 1,
            1 => 7,
            _ => chain.blocks.len(),
          }
          .min(chain.blocks.len() - fed);
          for b in &chain.blocks[fed..fed + c] {
            node.push_existing(b);
          }
          fed += c;
          index.update()?;
        }
        Ok((projection(&index)?, index.have_full_utxo_index()))
      });
      let _ = std::fs::remove_dir_all(&d);
      match outcome {
        Err(p) => rep.violation(&format!("C15/update-panic/{}", panic_signature(&p)), format!("{}: {p}", cfg.label()), rp),
        Ok(Err(e)) => rep.violation("C15/update-error", format!("{}: {e:#}", cfg.label()), rp),
        Ok(Ok((proj, full))) => {
          rep.count(if full { "runs_with_full_utxo_index" } else { "runs_fetching_values_from_node" });
          rep.distinct(&(bits, first_height.is_some(), chunking));
          rep.seen("configurations", format!("{}{}", cfg.label(), if full { "" } else { "/node-fetch" }));
          match &reference {
            None => {
              sats_of_reference = cfg.sats;
              reference = Some((cfg.label(), proj))
            }
            Some((name, want)) => match first_difference(want, &proj) {
              None => rep.count("projections_equal"),
              Some((table, detail)) => {
                let lost = differ_only_in_lost_offsets(want, &proj) && sats_of_reference != cfg.sats;
                if lost && first_height.is_some() {
                  rep.count("configurations_differing_only_in_lost_sat_offsets");
                }
                let sig = if lost && first_height.is_some() { "C15/lost-offset-differs-when-sats-were-lost-before-first-inscription-height".to_string() } else { format!("C15/results-differ/{}", table.split(' ').next().unwrap_or("")) };
                rep.violation(&sig, format!("{} vs {} (first inscription/rune height {:?}): {table}: {detail}", name, cfg.label(), first_height), rp);
              }
            },
          }
        }
      }
    }
    if rep.want_sample() {
      rep.sample(json!({"blocks": n_blocks, "first_height_override": first_height, "inscriptions": chain.model.insc.list.len(), "runes": chain.model.runes.entries.len(), "reference_rows": reference.as_ref().map(|r| r.1.values().map(|v| v.len()).sum::<usize>())}));
    }
    ord::verif::set_first_heights(None, None);
    let _ = std::fs::remove_dir_all(&dir);
  }
}
