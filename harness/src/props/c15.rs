//! C15 — optional indexes do not change inscription or rune results; the
//! node-fetch path for spent values agrees with local tracking.
//!
//! One pre-built chain is indexed under all 8 combinations of the sat /
//! address / transaction indexes (inscriptions and runes on), with the first
//! inscription / rune height at 0 (everything tracked locally) or — through
//! hook H5 — at 15..30, which makes the configurations without a full UTXO
//! index fetch input values from the node. Oracle: equality of the projection
//! of the tables onto inscription results (sat-derived charm bits masked, sat
//! dropped) and rune tables.

use crate::{
  blockgen::GenCfg,
  chainbuild::build_chain,
  ctx::Ctx,
  hooks::Hooks,
  idx::IndexCfg,
  node::Node,
  report::{Report, catch, panic_signature},
};
use bitcoin::Network;
use ord::Index;
use ordinals::Charm;
use serde_json::json;
use std::collections::BTreeMap;

fn sat_derived_mask() -> u16 {
  [Charm::Coin, Charm::Uncommon, Charm::Rare, Charm::Epic, Charm::Legendary, Charm::Mythic, Charm::Nineball, Charm::Palindrome].iter().fold(0, |m, c| m | c.flag())
}

/// The projection: table name -> sorted rows.
pub type Projection = BTreeMap<&'static str, Vec<String>>;

pub fn projection(index: &Index) -> anyhow::Result<Projection> {
  let t = index.verif_inscription_tables()?;
  let mask = !sat_derived_mask();
  let mut p: Projection = BTreeMap::new();
  p.insert(
    "inscription entries (id, number, seq, height, fee, parents, hidden, timestamp, charms without sat-derived bits)",
    t.entries
      .iter()
      .map(|e| format!("{} number={} seq={} height={} fee={} parents={:?} hidden={} ts={} charms={:?}", e.id, e.inscription_number, e.sequence_number, e.height, e.fee, e.parents, e.hidden, e.timestamp, Charm::charms(e.charms & mask)))
      .collect(),
  );
  p.insert("inscription locations", t.satpoints.iter().map(|(s, sp)| format!("#{s} at {sp}")).collect());
  p.insert("id -> sequence number", t.id_to_sequence_number.iter().map(|(id, s)| format!("{id} -> {s}")).collect());
  p.insert("number -> sequence number", t.number_to_sequence_number.iter().map(|(n, s)| format!("{n} -> {s}")).collect());
  p.insert("children", t.children.iter().map(|(a, b)| format!("{a} -> {b}")).collect());
  p.insert("collections", t.collection_to_latest_child.iter().map(|(a, b)| format!("{a} latest {b}")).collect());
  p.insert("height -> last sequence number", t.height_to_last_sequence_number.iter().map(|(a, b)| format!("{a}: {b}")).collect());
  // blessed, cursed, unbound inscriptions; runes, reserved runes
  p.insert("statistics (blessed, cursed, unbound, runes, reserved)", t.statistics.iter().filter(|(k, _)| [1u64, 3, 16, 13, 12].contains(k)).map(|(k, v)| format!("{k}={v}")).collect());
  p.insert("rune entries", index.runes()?.iter().map(|(id, e)| format!("{id}: {e:?}")).collect());
  let mut balances: Vec<String> = index.get_rune_balances()?.iter().map(|(op, l)| format!("{op}: {l:?}")).collect();
  balances.sort();
  p.insert("rune balances", balances);
  Ok(p)
}

fn first_difference(a: &Projection, b: &Projection) -> Option<(&'static str, String)> {
  for (table, rows) in a {
    let other = b.get(table).cloned().unwrap_or_default();
    if *rows != other {
      let n = rows.len().max(other.len());
      for i in 0..n {
        if rows.get(i) != other.get(i) {
          return Some((table, format!("row {i}: {:?} vs {:?} ({} vs {} rows)", rows.get(i), other.get(i), rows.len(), other.len())));
        }
      }
    }
  }
  None
}

const NULL_OUTPOINT: &str = "0000000000000000000000000000000000000000000000000000000000000000:4294967295:";

/// True when the two projections differ *only* in the offsets of inscriptions
/// that both place in the lost-sats pseudo-output (same sequence numbers, same
/// null outpoint): the documented consequence of counting lost sats from the
/// first inscription height instead of from genesis when the sat index is off.
fn differ_only_in_lost_offsets(a: &Projection, b: &Projection) -> bool {
  let mut any = false;
  for (table, rows) in a {
    let other = b.get(table).cloned().unwrap_or_default();
    if *rows == other {
      continue;
    }
    if *table != "inscription locations" || rows.len() != other.len() {
      return false;
    }
    for (x, y) in rows.iter().zip(other.iter()) {
      if x == y {
        continue;
      }
      match (x.split_once(NULL_OUTPOINT), y.split_once(NULL_OUTPOINT)) {
        (Some((px, _)), Some((py, _))) if px == py => any = true,
        _ => return false,
      }
    }
  }
  any && b.keys().all(|k| a.contains_key(k))
}

pub fn run(ctx: &Ctx, rep: &mut Report) {
  let _hooks = Hooks::install();
  let scratch = if ctx.scratch.is_empty() { "/tmp/verif-scratch".to_string() } else { ctx.scratch.clone() };
  for case in ctx.cases(u64::MAX) {
    let mut rng = ctx.rng(case);
    let replay = ctx.replay_info(case);
    let mut gencfg = GenCfg::default();
    gencfg.w_transfer = 5;
    gencfg.w_reveal = 5;
    gencfg.w_rune = 3;
    gencfg.max_txs = *rng.pick(&[3usize, 6]);
    let n_blocks = if ctx.thorough() { rng.range(60, 160) } else { rng.range(35, 80) } as u32;
    let first_height: Option<u32> = if rng.chance(2, 3) { Some(rng.range(12, 30) as u32) } else { None };
    let chain = build_chain(&mut rng, Network::Regtest, &gencfg, n_blocks);
    // same override for every configuration of this case
    ord::verif::set_first_heights(first_height, first_height);
    let dir = std::path::PathBuf::from(format!("{scratch}/c15-{case}"));
    let _ = std::fs::remove_dir_all(&dir);
    let chunking = rng.below(3);
    let mut reference: Option<(String, Projection)> = None;
    let mut sats_of_reference = false;
    for bits in 0..8u32 {
      let mut cfg = IndexCfg::all();
      cfg.sats = bits & 1 != 0;
      cfg.addresses = bits & 2 != 0;
      cfg.transactions = bits & 4 != 0;
      cfg.commit_interval = Some(*rng.pick(&[1usize, 3, 5000]));
      let d = dir.join(format!("cfg{bits}"));
      std::fs::create_dir_all(&d).unwrap();
      let mut node = Node::new(Network::Regtest);
      let rp = json!({"replay": replay, "config": cfg.label(), "first_inscription_and_rune_height": first_height, "blocks": n_blocks});
      rep.eval();
      let outcome = catch(|| -> anyhow::Result<(Projection, bool)> {
        let index = cfg.open(&node, &d)?;
        let mut fed = 0usize;
        while fed < chain.blocks.len() {
          let c = match chunking {
            0 => 1,
            1 => 7,
            _ => chain.blocks.len(),
          }
          .min(chain.blocks.len() - fed);
          for b in &chain.blocks[fed..fed + c] {
            node.push_existing(b);
          }
          fed += c;
          index.update()?;
        }
        Ok((projection(&index)?, index.have_full_utxo_index()))
      });
      let _ = std::fs::remove_dir_all(&d);
      match outcome {
        Err(p) => rep.violation(&format!("C15/update-panic/{}", panic_signature(&p)), format!("{}: {p}", cfg.label()), rp),
        Ok(Err(e)) => rep.violation("C15/update-error", format!("{}: {e:#}", cfg.label()), rp),
        Ok(Ok((proj, full))) => {
          rep.count(if full { "runs_with_full_utxo_index" } else { "runs_fetching_values_from_node" });
          rep.distinct(&(bits, first_height.is_some(), chunking));
          rep.seen("configurations", format!("{}{}", cfg.label(), if full { "" } else { "/node-fetch" }));
          match &reference {
            None => {
              sats_of_reference = cfg.sats;
              reference = Some((cfg.label(), proj))
            }
            Some((name, want)) => match first_difference(want, &proj) {
              None => rep.count("projections_equal"),
              Some((table, detail)) => {
                let lost = differ_only_in_lost_offsets(want, &proj) && sats_of_reference != cfg.sats;
                if lost && first_height.is_some() {
                  rep.count("configurations_differing_only_in_lost_sat_offsets");
                }
                let sig = if lost && first_height.is_some() { "C15/lost-offset-differs-when-sats-were-lost-before-first-inscription-height".to_string() } else { format!("C15/results-differ/{}", table.split(' ').next().unwrap_or("")) };
                rep.violation(&sig, format!("{} vs {} (first inscription/rune height {:?}): {table}: {detail}", name, cfg.label(), first_height), rp);
              }
            },
          }
        }
      }
    }
    if rep.want_sample() {
      rep.sample(json!({"blocks": n_blocks, "first_height_override": first_height, "inscriptions": chain.model.insc.list.len(), "runes": chain.model.runes.entries.len(), "reference_rows": reference.as_ref().map(|r| r.1.values().map(|v| v.len()).sum::<usize>())}));
    }
    ord::verif::set_first_heights(None, None);
    let _ = std::fs::remove_dir_all(&dir);
  }
}
