//! C25 — runestones round-trip; deciphering is total and reports the
//! documented flaw. Oracle: a reference decipherer written from
//! docs/src/runes/specification.md with its own script walker, LEB128 decoder
//! and message parser. Depends only on `ordinals` + `bitcoin` (Miri-capable).

use crate::{ctx::Ctx, report::{Report, catch}, rng::Rng};
use bitcoin::{Amount, ScriptBuf, Transaction, TxOut, absolute::LockTime, transaction::Version};
use ordinals::{Artifact, Edict, Etching, Flaw, Rune, RuneId, Runestone, Terms};
use serde_json::json;
use std::collections::BTreeMap;

// ---------------------------------------------------------------- reference

#[derive(Debug, Clone, Copy, PartialEq, Eq)]
pub enum RefFlaw {
  EdictOutput,
  EdictRuneId,
  InvalidScript,
  Opcode,
  SupplyOverflow,
  TrailingIntegers,
  TruncatedField,
  UnrecognizedEvenTag,
  UnrecognizedFlag,
  Varint,
}

#[derive(Debug, Clone, PartialEq, Eq, Default)]
pub struct RefTerms {
  pub amount: Option<u128>,
  pub cap: Option<u128>,
  pub height: (Option<u64>, Option<u64>),
  pub offset: (Option<u64>, Option<u64>),
}

#[derive(Debug, Clone, PartialEq, Eq, Default)]
pub struct RefEtching {
  pub divisibility: Option<u8>,
  pub premine: Option<u128>,
  pub rune: Option<u128>,
  pub spacers: Option<u32>,
  pub symbol: Option<char>,
  pub terms: Option<RefTerms>,
  pub turbo: bool,
}

#[derive(Debug, Clone, PartialEq, Eq)]
pub struct RefEdict {
  pub id: (u64, u32),
  pub amount: u128,
  pub output: u32,
}

#[derive(Debug, Clone, PartialEq, Eq)]
pub enum RefArtifact {
  Runestone { edicts: Vec<RefEdict>, etching: Option<RefEtching>, mint: Option<(u64, u32)>, pointer: Option<u32> },
  Cenotaph { flaw: RefFlaw, etching: Option<u128>, mint: Option<(u64, u32)> },
}

/// Walk data pushes after OP_RETURN OP_13.
fn ref_payload(script: &[u8]) -> Result<Vec<u8>, RefFlaw> {
  let mut i = 2;
  let mut payload = Vec::new();
  while i < script.len() {
    let op = script[i];
    i += 1;
    let len = match op {
      0 => 0usize,
      1..=75 => op as usize,
      76 => {
        if i + 1 > script.len() {
          return Err(RefFlaw::InvalidScript);
        }
        let l = script[i] as usize;
        i += 1;
        l
      }
      77 => {
        if i + 2 > script.len() {
          return Err(RefFlaw::InvalidScript);
        }
        let l = u16::from_le_bytes([script[i], script[i + 1]]) as usize;
        i += 2;
        l
      }
      78 => {
        if i + 4 > script.len() {
          return Err(RefFlaw::InvalidScript);
        }
        let l = u32::from_le_bytes([script[i], script[i + 1], script[i + 2], script[i + 3]]) as usize;
        i += 4;
        l
      }
      _ => return Err(RefFlaw::Opcode),
    };
    if script.len() - i < len {
      return Err(RefFlaw::InvalidScript);
    }
    payload.extend_from_slice(&script[i..i + len]);
    i += len;
  }
  Ok(payload)
}

/// LEB128 sequence; any overlong (>19 bytes), overflowing or unterminated
/// group is an error.
fn ref_integers(payload: &[u8]) -> Result<Vec<u128>, ()> {
  let mut out = Vec::new();
  let mut i = 0;
  while i < payload.len() {
    let mut n: u128 = 0;
    let mut k = 0usize;
    loop {
      let Some(&b) = payload.get(i) else {
        return Err(()); // unterminated
      };
      i += 1;
      let v = u128::from(b & 0x7f);
      if k >= 19 {
        return Err(()); // overlong
      }
      if k == 18 && v > 3 {
        return Err(()); // would need bit 128 or above
      }
      n |= v << (7 * k);
      k += 1;
      if b & 0x80 == 0 {
        break;
      }
    }
    out.push(n);
  }
  Ok(out)
}

fn ref_rune_id(block: u64, tx: u32) -> Option<(u64, u32)> {
  if block == 0 && tx > 0 { None } else { Some((block, tx)) }
}

pub fn ref_decipher(tx: &Transaction) -> Option<RefArtifact> {
  let script = tx.output.iter().map(|o| o.script_pubkey.as_bytes()).find(|b| b.len() >= 2 && b[0] == 0x6a && b[1] == 0x5d)?;
  let empty = |flaw| Some(RefArtifact::Cenotaph { flaw, etching: None, mint: None });
  let payload = match ref_payload(script) {
    Ok(p) => p,
    Err(f) => return empty(f),
  };
  let Ok(ints) = ref_integers(&payload) else {
    return empty(RefFlaw::Varint);
  };
  let outputs = tx.output.len() as u128;

  // untyped message
  let mut fields: BTreeMap<u128, Vec<u128>> = BTreeMap::new();
  let mut edicts = Vec::new();
  let mut flaw: Option<RefFlaw> = None;
  let mut i = 0;
  while i < ints.len() {
    let tag = ints[i];
    if tag == 0 {
      let rest = &ints[i + 1..];
      let mut base: (u64, u32) = (0, 0);
      let mut j = 0;
      while j < rest.len() {
        if rest.len() - j < 4 {
          flaw.get_or_insert(RefFlaw::TrailingIntegers);
          break;
        }
        let (db, dt, amount, output) = (rest[j], rest[j + 1], rest[j + 2], rest[j + 3]);
        // delta decoding
        let id = (|| {
          let db64 = u64::try_from(db).ok()?;
          let block = base.0.checked_add(db64)?;
          let tx = if db == 0 { base.1.checked_add(u32::try_from(dt).ok()?)? } else { u32::try_from(dt).ok()? };
          ref_rune_id(block, tx)
        })();
        let Some(id) = id else {
          flaw.get_or_insert(RefFlaw::EdictRuneId);
          break;
        };
        if output > outputs {
          flaw.get_or_insert(RefFlaw::EdictOutput);
          break;
        }
        base = id;
        edicts.push(RefEdict { id, amount, output: output as u32 });
        j += 4;
      }
      break;
    }
    let Some(&value) = ints.get(i + 1) else {
      flaw.get_or_insert(RefFlaw::TruncatedField);
      break;
    };
    fields.entry(tag).or_default().push(value);
    i += 2;
  }

  // typed parse: a value is consumed only when valid for its field
  fn take1<T>(fields: &mut BTreeMap<u128, Vec<u128>>, tag: u128, f: impl Fn(u128) -> Option<T>) -> Option<T> {
    let v = fields.get_mut(&tag)?;
    let out = f(*v.first()?)?;
    v.remove(0);
    if v.is_empty() {
      fields.remove(&tag);
    }
    Some(out)
  }
  let mut flags = take1(&mut fields, 2, Some).unwrap_or(0);
  let mut take_flag = |bit: u32| {
    let set = flags & (1u128 << bit) != 0;
    flags &= !(1u128 << bit);
    set
  };
  let etching = if take_flag(0) {
    let divisibility = take1(&mut fields, 1, |v| u8::try_from(v).ok().filter(|d| *d <= 38));
    let premine = take1(&mut fields, 6, Some);
    let rune = take1(&mut fields, 4, Some);
    let spacers = take1(&mut fields, 3, |v| u32::try_from(v).ok().filter(|s| *s <= 0x07ff_ffff));
    let symbol = take1(&mut fields, 5, |v| u32::try_from(v).ok().and_then(char::from_u32));
    let terms = if take_flag(1) {
      let cap = take1(&mut fields, 8, Some);
      let hs = take1(&mut fields, 12, |v| u64::try_from(v).ok());
      let he = take1(&mut fields, 14, |v| u64::try_from(v).ok());
      let amount = take1(&mut fields, 10, Some);
      let os = take1(&mut fields, 16, |v| u64::try_from(v).ok());
      let oe = take1(&mut fields, 18, |v| u64::try_from(v).ok());
      Some(RefTerms { amount, cap, height: (hs, he), offset: (os, oe) })
    } else {
      None
    };
    let turbo = take_flag(2);
    Some(RefEtching { divisibility, premine, rune, spacers, symbol, terms, turbo })
  } else {
    None
  };
  // mint: two values
  let mint = (|| {
    let v = fields.get_mut(&20)?;
    if v.len() < 2 {
      return None;
    }
    let id = ref_rune_id(u64::try_from(v[0]).ok()?, u32::try_from(v[1]).ok()?)?;
    v.drain(0..2);
    if v.is_empty() {
      fields.remove(&20);
    }
    Some(id)
  })();
  let pointer = take1(&mut fields, 22, |v| u32::try_from(v).ok().filter(|p| u128::from(*p) < outputs));

  if let Some(e) = &etching {
    let premine = e.premine.unwrap_or(0);
    let cap = e.terms.as_ref().and_then(|t| t.cap).unwrap_or(0);
    let amount = e.terms.as_ref().and_then(|t| t.amount).unwrap_or(0);
    let supply = cap.checked_mul(amount).and_then(|m| premine.checked_add(m));
    if supply.is_none() {
      flaw.get_or_insert(RefFlaw::SupplyOverflow);
    }
  }
  if flags != 0 {
    flaw.get_or_insert(RefFlaw::UnrecognizedFlag);
  }
  if fields.keys().any(|t| t % 2 == 0) {
    flaw.get_or_insert(RefFlaw::UnrecognizedEvenTag);
  }
  Some(match flaw {
    Some(flaw) => RefArtifact::Cenotaph { flaw, etching: etching.and_then(|e| e.rune), mint },
    None => RefArtifact::Runestone { edicts, etching, mint, pointer },
  })
}

// ------------------------------------------------------------ conversions

fn conv_flaw(f: Flaw) -> RefFlaw {
  match f {
    Flaw::EdictOutput => RefFlaw::EdictOutput,
    Flaw::EdictRuneId => RefFlaw::EdictRuneId,
    Flaw::InvalidScript => RefFlaw::InvalidScript,
    Flaw::Opcode => RefFlaw::Opcode,
    Flaw::SupplyOverflow => RefFlaw::SupplyOverflow,
    Flaw::TrailingIntegers => RefFlaw::TrailingIntegers,
    Flaw::TruncatedField => RefFlaw::TruncatedField,
    Flaw::UnrecognizedEvenTag => RefFlaw::UnrecognizedEvenTag,
    Flaw::UnrecognizedFlag => RefFlaw::UnrecognizedFlag,
    Flaw::Varint => RefFlaw::Varint,
  }
}

pub fn conv_etching(e: &Etching) -> RefEtching {
  RefEtching {
    divisibility: e.divisibility,
    premine: e.premine,
    rune: e.rune.map(|r| r.0),
    spacers: e.spacers,
    symbol: e.symbol,
    terms: e.terms.map(|t| RefTerms { amount: t.amount, cap: t.cap, height: t.height, offset: t.offset }),
    turbo: e.turbo,
  }
}

pub fn conv_artifact(a: &Artifact) -> Result<RefArtifact, String> {
  Ok(match a {
    Artifact::Runestone(r) => RefArtifact::Runestone {
      edicts: r.edicts.iter().map(|e| RefEdict { id: (e.id.block, e.id.tx), amount: e.amount, output: e.output }).collect(),
      etching: r.etching.as_ref().map(conv_etching),
      mint: r.mint.map(|m| (m.block, m.tx)),
      pointer: r.pointer,
    },
    Artifact::Cenotaph(c) => RefArtifact::Cenotaph {
      flaw: conv_flaw(c.flaw.ok_or("cenotaph without flaw")?),
      etching: c.etching.map(|r| r.0),
      mint: c.mint.map(|m| (m.block, m.tx)),
    },
  })
}

// ------------------------------------------------------------- generators

pub fn leb(mut n: u128, out: &mut Vec<u8>) {
  loop {
    let b = (n & 0x7f) as u8;
    n >>= 7;
    if n == 0 {
      out.push(b);
      return;
    }
    out.push(b | 0x80);
  }
}

/// Push `data` with a randomly chosen (possibly non-minimal) push opcode.
pub fn push_data(script: &mut Vec<u8>, data: &[u8], rng: &mut Rng) {
  let len = data.len();
  let form = rng.below(8);
  if len == 0 && form < 6 {
    script.push(0);
  } else if len <= 75 && form < 6 {
    script.push(len as u8);
  } else if len <= 255 && form < 7 {
    script.push(76);
    script.push(len as u8);
  } else if len <= 65535 && form < 8 {
    script.push(77);
    script.extend_from_slice(&(len as u16).to_le_bytes());
  } else {
    script.push(78);
    script.extend_from_slice(&(len as u32).to_le_bytes());
  }
  script.extend_from_slice(data);
}

pub fn script_from_payload(payload: &[u8], rng: &mut Rng) -> Vec<u8> {
  let mut script = vec![0x6a, 0x5d];
  // split the payload into 1..4 pushes at random places (also mid-varint)
  let pieces = rng.usize(1, 4);
  let mut cuts: Vec<usize> = (0..pieces - 1).map(|_| rng.usize(0, payload.len())).collect();
  cuts.sort();
  let mut prev = 0;
  for c in cuts.into_iter().chain([payload.len()]) {
    push_data(&mut script, &payload[prev..c], rng);
    prev = c;
  }
  script
}

fn tx_with(scripts: Vec<Vec<u8>>) -> Transaction {
  Transaction {
    version: Version(2),
    lock_time: LockTime::ZERO,
    input: Vec::new(),
    output: scripts.into_iter().map(|s| TxOut { value: Amount::from_sat(0), script_pubkey: ScriptBuf::from_bytes(s) }).collect(),
  }
}

fn gen_id(rng: &mut Rng) -> RuneId {
  let block = match rng.below(6) {
    0 => 0,
    1 => rng.below(10),
    2 => u64::MAX - rng.below(3),
    3 => u64::from(u32::MAX) + rng.below(3),
    _ => rng.log_u64(),
  };
  let tx = if block == 0 {
    0
  } else {
    match rng.below(4) {
      0 => 0,
      1 => u32::MAX - rng.below(3) as u32,
      _ => rng.log_u64() as u32,
    }
  };
  RuneId { block, tx }
}

pub fn gen_amount(rng: &mut Rng) -> u128 {
  match rng.below(5) {
    0 => 0,
    1 => u128::MAX,
    2 => rng.below(1000) as u128,
    _ => rng.edge_u128(),
  }
}

fn opt<T>(rng: &mut Rng, f: impl FnOnce(&mut Rng) -> T) -> Option<T> {
  if rng.chance(1, 2) { Some(f(rng)) } else { None }
}

/// A well-formed runestone for a transaction with `outputs` outputs.
pub fn gen_runestone(rng: &mut Rng, outputs: u32) -> Runestone {
  let n_edicts = match rng.below(6) {
    0 => 0,
    1 => 1,
    2 => rng.usize(2, 5),
    3 => rng.usize(5, 64),
    _ => rng.usize(0, 3),
  };
  let few_ids: Vec<RuneId> = (0..rng.usize(1, 4)).map(|_| gen_id(rng)).collect();
  let edicts = (0..n_edicts)
    .map(|_| Edict {
      id: if rng.chance(2, 3) { *rng.pick(&few_ids) } else { gen_id(rng) },
      amount: gen_amount(rng),
      output: rng.below(u64::from(outputs) + 1) as u32,
    })
    .collect();
  let etching = opt(rng, |rng| {
    let mut e = Etching {
      divisibility: opt(rng, |r| r.below(39) as u8),
      premine: opt(rng, gen_amount),
      rune: opt(rng, |r| Rune(r.edge_u128())),
      spacers: opt(rng, |r| (r.next_u32() & Etching::MAX_SPACERS) >> r.below(27)),
      symbol: opt(rng, |r| loop {
        let c = match r.below(3) {
          0 => r.below(128) as u32,
          1 => r.below(0x11_0000) as u32,
          _ => *r.pick(&[0u32, 0xD7FF, 0xE000, 0x10FFFF, 0x29C9]),
        };
        if let Some(c) = char::from_u32(c) {
          break c;
        }
      }),
      terms: opt(rng, |r| Terms {
        amount: opt(r, gen_amount),
        cap: opt(r, gen_amount),
        height: (opt(r, |r| r.log_u64()), opt(r, |r| r.log_u64())),
        offset: (opt(r, |r| r.log_u64()), opt(r, |r| r.log_u64())),
      }),
      turbo: rng.chance(1, 2),
    };
    // well-formed: supply must not overflow
    while e.supply().is_none() {
      if let Some(t) = e.terms.as_mut() {
        t.cap = t.cap.map(|c| c >> 17);
        t.amount = t.amount.map(|a| a >> 13);
      }
      e.premine = e.premine.map(|p| p >> 1);
    }
    e
  });
  Runestone {
    edicts,
    etching,
    mint: opt(rng, gen_id),
    pointer: if outputs > 0 { opt(rng, |r| r.below(u64::from(outputs)) as u32) } else { None },
  }
}

/// The integer sequence ord would encipher for `r` (reference encoder).
pub fn integers_of(r: &Runestone) -> Vec<u128> {
  let mut v = Vec::new();
  if let Some(e) = r.etching {
    let mut flags = 1u128;
    if e.terms.is_some() {
      flags |= 2;
    }
    if e.turbo {
      flags |= 4;
    }
    v.extend([2, flags]);
    if let Some(x) = e.rune {
      v.extend([4, x.0]);
    }
    if let Some(x) = e.divisibility {
      v.extend([1, x.into()]);
    }
    if let Some(x) = e.spacers {
      v.extend([3, x.into()]);
    }
    if let Some(x) = e.symbol {
      v.extend([5, u128::from(u32::from(x))]);
    }
    if let Some(x) = e.premine {
      v.extend([6, x]);
    }
    if let Some(t) = e.terms {
      if let Some(x) = t.amount {
        v.extend([10, x]);
      }
      if let Some(x) = t.cap {
        v.extend([8, x]);
      }
      if let Some(x) = t.height.0 {
        v.extend([12, x.into()]);
      }
      if let Some(x) = t.height.1 {
        v.extend([14, x.into()]);
      }
      if let Some(x) = t.offset.0 {
        v.extend([16, x.into()]);
      }
      if let Some(x) = t.offset.1 {
        v.extend([18, x.into()]);
      }
    }
  }
  if let Some(m) = r.mint {
    v.extend([20, m.block.into(), 20, m.tx.into()]);
  }
  if let Some(p) = r.pointer {
    v.extend([22, p.into()]);
  }
  if !r.edicts.is_empty() {
    v.push(0);
    let mut edicts = r.edicts.clone();
    edicts.sort_by_key(|e| e.id);
    let mut prev = RuneId::default();
    for e in edicts {
      let db = e.id.block - prev.block;
      let dt = if db == 0 { e.id.tx - prev.tx } else { e.id.tx };
      v.extend([db.into(), dt.into(), e.amount, e.output.into()]);
      prev = e.id;
    }
  }
  v
}

/// Mutate an integer sequence towards every flaw.
pub fn mutate(ints: &mut Vec<u128>, rng: &mut Rng, outputs: u32) -> &'static str {
  let kind = rng.below(16);
  let pos = |rng: &mut Rng, len: usize| if len == 0 { 0 } else { rng.usize(0, len) };
  match kind {
    0 => {
      let p = pos(rng, ints.len());
      ints.insert(p.min(ints.len()), rng.below(130) as u128);
      "insert-small"
    }
    1 => {
      if !ints.is_empty() {
        let p = rng.usize(0, ints.len() - 1);
        ints.remove(p);
      }
      "drop-one"
    }
    2 => {
      // unknown even / odd tag with a value, in front
      let tag = *rng.pick(&[24u128, 26, 126, 128, 1000, 7, 9, 127, 129, u128::MAX, u128::MAX - 1]);
      let p = 0;
      ints.insert(p, rng.edge_u128());
      ints.insert(p, tag);
      "unknown-tag"
    }
    3 => {
      // duplicate a known tag
      let tag = *rng.pick(&[2u128, 4, 6, 8, 10, 12, 14, 16, 18, 20, 22, 1, 3, 5]);
      ints.insert(0, rng.below(50) as u128);
      ints.insert(0, tag);
      "duplicate-known-tag"
    }
    4 => {
      // flags with extra bits
      let bits = (1u128 << rng.below(128)) | rng.below(8) as u128;
      ints.insert(0, bits);
      ints.insert(0, 2);
      "flags"
    }
    5 => {
      ints.extend((0..rng.usize(1, 3)).map(|_| rng.below(5) as u128));
      "trailing"
    }
    6 => {
      // edict with bad id: block 0, tx > 0 — as a fresh body
      ints.push(0);
      ints.extend([0, 1 + rng.below(5) as u128, 1, 0]);
      "edict-block0"
    }
    7 => {
      // edict output beyond the output count
      if !ints.contains(&0) {
        ints.push(0);
      }
      ints.extend([1, 1, 1, u128::from(outputs) + rng.below(3) as u128]);
      "edict-output"
    }
    8 => {
      // overflowing values for typed fields
      let (tag, v) = *rng.pick(&[
        (1u128, 39u128),
        (1, 256),
        (3, 0x0800_0000),
        (3, u128::from(u32::MAX) + 1),
        (5, 0xD800),
        (5, 0x11_0000),
        (12, u128::from(u64::MAX) + 1),
        (14, u128::MAX),
        (16, u128::from(u64::MAX) + 1),
        (18, u128::from(u64::MAX) + 1),
        (22, u128::from(u32::MAX) + 1),
      ]);
      ints.insert(0, v);
      ints.insert(0, tag);
      "typed-overflow"
    }
    9 => {
      // pointer at / beyond the output count
      ints.insert(0, u128::from(outputs) + rng.below(2) as u128);
      ints.insert(0, 22);
      "pointer-range"
    }
    10 => {
      // mint with one value, or block 0 tx>0, or too large
      match rng.below(3) {
        0 => {
          ints.insert(0, 5);
          ints.insert(0, 20);
        }
        1 => {
          ints.splice(0..0, [20, 0, 20, 7]);
        }
        _ => {
          ints.splice(0..0, [20, u128::from(u64::MAX) + 1, 20, 7]);
        }
      }
      "mint-shape"
    }
    11 => {
      // supply overflow
      ints.splice(0..0, [2, 3, 6, u128::MAX, 8, 2, 10, 1 + rng.below(3) as u128]);
      "supply-overflow"
    }
    12 => {
      // edict id overflow
      ints.push(0);
      ints.extend([u128::from(u64::MAX), 0, 1, 0, 1 + rng.below(3) as u128, 0, 1, 0]);
      "edict-id-overflow"
    }
    13 => {
      if !ints.is_empty() {
        let p = rng.usize(0, ints.len() - 1);
        ints[p] = rng.edge_u128();
      }
      "replace-random"
    }
    14 => {
      ints.truncate(pos(rng, ints.len()));
      "truncate"
    }
    _ => {
      // terms/turbo flag without etching flag
      ints.splice(0..0, [2, *rng.pick(&[2u128, 4, 6])]);
      "flags-without-etching"
    }
  }
}

fn gen_random_script(rng: &mut Rng) -> Vec<u8> {
  let mut s = match rng.below(4) {
    0 => vec![0x6a, 0x5d],
    1 => vec![0x6a],
    2 => vec![0x6a, *rng.pick(&[0x5c, 0x5e, 0x4c, 0x01, 0x5d])],
    _ => Vec::new(),
  };
  let n = rng.usize(0, 12);
  for _ in 0..n {
    match rng.below(6) {
      0 => s.push(rng.next_u64() as u8),
      1 => s.push(*rng.pick(&[0x4c, 0x4d, 0x4e, 0x4f, 0x50, 0x51, 0x60, 0x6a, 0xff, 0x00, 0x4b])),
      2 => {
        let n = rng.usize(0, 30);
        let d = rng.bytes(n);
        push_data(&mut s, &d, rng);
      }
      3 => {
        // truncated push
        s.push(rng.range(1, 78) as u8);
      }
      4 => {
        let mut p = Vec::new();
        leb(rng.edge_u128(), &mut p);
        push_data(&mut s, &p, rng);
      }
      _ => {
        // a continuation-heavy blob (bad varints)
        let n = rng.usize(1, 25);
        let d: Vec<u8> = rng.bytes(n).into_iter().map(|b| b | 0x80).collect();
        push_data(&mut s, &d, rng);
      }
    }
  }
  s
}

// ---------------------------------------------------------------- checks

fn compare(tx: &Transaction, class: &str, rep: &mut Report, replay: &serde_json::Value) {
  rep.eval();
  let want = ref_decipher(tx);
  let got = catch(|| Runestone::decipher(tx));
  let tx_hex = || bitcoin::consensus::encode::serialize_hex(tx);
  let got = match got {
    Ok(g) => g,
    Err(p) => {
      rep.violation("C25/decipher/panic", format!("{class}: {p}"), json!({"replay": replay, "tx": tx_hex()}));
      return;
    }
  };
  let got_ref = match got.as_ref().map(conv_artifact).transpose() {
    Ok(g) => g,
    Err(e) => {
      rep.violation("C25/decipher/cenotaph-without-flaw", format!("{class}: {e}"), json!({"replay": replay, "tx": tx_hex()}));
      return;
    }
  };
  let shape = match &want {
    None => "none".to_string(),
    Some(RefArtifact::Runestone { edicts, etching, mint, pointer }) => {
      format!("rs/e{}/{}{}{}", edicts.len().min(9), etching.is_some() as u8, mint.is_some() as u8, pointer.is_some() as u8)
    }
    Some(RefArtifact::Cenotaph { flaw, etching, mint }) => format!("cen/{flaw:?}/{}{}", etching.is_some() as u8, mint.is_some() as u8),
  };
  rep.distinct(&(class.to_string(), shape.clone()));
  rep.count(&format!("artifact_{}", shape.split('/').take(2).collect::<Vec<_>>().join("_")));
  if got_ref != want {
    let sig = match (&want, &got_ref) {
      (Some(RefArtifact::Cenotaph { flaw: a, .. }), Some(RefArtifact::Cenotaph { flaw: b, .. })) if a != b => "C25/decipher/wrong-flaw",
      (Some(RefArtifact::Cenotaph { .. }), Some(RefArtifact::Cenotaph { .. })) => "C25/decipher/cenotaph-contents",
      (Some(RefArtifact::Cenotaph { .. }), Some(RefArtifact::Runestone { .. })) => "C25/decipher/flaw-missed",
      (Some(RefArtifact::Runestone { .. }), Some(RefArtifact::Cenotaph { .. })) => "C25/decipher/spurious-flaw",
      (Some(RefArtifact::Runestone { .. }), Some(RefArtifact::Runestone { .. })) => "C25/decipher/runestone-contents",
      (None, Some(_)) => "C25/decipher/found-without-magic",
      (Some(_), None) => "C25/decipher/missed-runestone-output",
      _ => "C25/decipher/mismatch",
    };
    rep.violation(sig, format!("{class}: ord {got_ref:?}, reference {want:?}"), json!({"replay": replay, "tx": tx_hex()}));
  }
}

fn roundtrip(r: &Runestone, outputs_before: u32, outputs_after: u32, rep: &mut Report, replay: &serde_json::Value) {
  rep.eval();
  let res = catch(|| {
    let script = r.encipher();
    let mut scripts: Vec<Vec<u8>> = (0..outputs_before).map(|i| vec![0x51, i as u8]).collect();
    scripts.push(script.to_bytes());
    scripts.extend((0..outputs_after).map(|i| vec![0x52, i as u8]));
    let tx = tx_with(scripts);
    (Runestone::decipher(&tx), tx)
  });
  let describe = || format!("{r:?}");
  let (got, tx) = match res {
    Ok(x) => x,
    Err(p) => {
      rep.violation("C25/roundtrip/panic", format!("{}: {p}", describe()), json!({"replay": replay, "runestone": describe()}));
      return;
    }
  };
  let mut want_edicts = r.edicts.clone();
  want_edicts.sort_by_key(|e| e.id); // stable
  let want = Artifact::Runestone(Runestone { edicts: want_edicts, etching: r.etching, mint: r.mint, pointer: r.pointer });
  if got.as_ref() != Some(&want) {
    rep.violation(
      "C25/roundtrip/mismatch",
      format!("enciphered {} deciphers to {got:?}", describe()),
      json!({"replay": replay, "runestone": describe(), "tx": bitcoin::consensus::encode::serialize_hex(&tx)}),
    );
  } else {
    rep.count("roundtrip_ok");
  }
  // the reference must agree on what ord wrote, too (validates the reference)
  compare(&tx, "enciphered", rep, replay);
}

pub fn run(ctx: &Ctx, rep: &mut Report) {
  let miri = cfg!(miri);
  if ctx.deterministic_part() {
    let replay = ctx.replay_info(u64::MAX);
    // no outputs / no magic / magic only
    compare(&tx_with(vec![]), "fixed", rep, &replay);
    compare(&tx_with(vec![vec![0x6a]]), "fixed", rep, &replay);
    compare(&tx_with(vec![vec![0x6a, 0x5d]]), "fixed", rep, &replay);
    compare(&tx_with(vec![vec![0x6a, 0x5d, 0x4c]]), "fixed", rep, &replay);
    // every opcode directly after the magic number, alone and before a push
    for op in 0..=255u8 {
      compare(&tx_with(vec![vec![0x6a, 0x5d, op]]), "opcode-sweep", rep, &replay);
      compare(&tx_with(vec![vec![0x6a, 0x5d, op, 0x01, 0x00]]), "opcode-sweep", rep, &replay);
      compare(&tx_with(vec![vec![0x6a, op], vec![0x6a, 0x5d, 0x01, 0x7f]]), "second-op-sweep", rep, &replay);
    }
    // first matching output wins, even when it is a cenotaph
    compare(&tx_with(vec![vec![0x51], vec![0x6a, 0x5d, 0x51], vec![0x6a, 0x5d]]), "fixed", rep, &replay);
    // every single tag 0..=130 with a value, with and without the etching flag
    for tag in 0..=130u128 {
      for flags in [None, Some(1u128), Some(3), Some(7)] {
        let mut payload = Vec::new();
        if let Some(f) = flags {
          leb(2, &mut payload);
          leb(f, &mut payload);
        }
        leb(tag, &mut payload);
        leb(1, &mut payload);
        let mut s = vec![0x6a, 0x5d, payload.len() as u8];
        s.extend(payload);
        compare(&tx_with(vec![s, vec![0x51]]), "tag-sweep", rep, &replay);
      }
    }
    // every single flag bit
    for bit in 0..128u32 {
      let mut payload = Vec::new();
      leb(2, &mut payload);
      leb(1u128 << bit, &mut payload);
      let mut s = vec![0x6a, 0x5d, payload.len() as u8];
      s.extend(payload);
      compare(&tx_with(vec![s]), "flag-sweep", rep, &replay);
    }
  }
  let max = if miri { 150 } else { u64::MAX };
  for case in ctx.cases(max) {
    if case == u64::MAX {
      break;
    }
    let mut rng = ctx.rng(case);
    let replay = ctx.replay_info(case);
    for _ in 0..(if miri { 1 } else { 32 }) {
      let before = rng.below(4) as u32;
      let after = rng.below(4) as u32;
      let outputs = before + after + 1;
      let r = gen_runestone(&mut rng, outputs);
      if rep.want_sample() {
        rep.sample(json!({"runestone": format!("{r:?}"), "script": r.encipher().to_hex_string()}));
      }
      roundtrip(&r, before, after, rep, &replay);

      // mutated integer sequences (1..3 mutations) in a hand-built script
      let mut ints = integers_of(&r);
      let mut kinds = Vec::new();
      for _ in 0..rng.usize(1, 3) {
        kinds.push(mutate(&mut ints, &mut rng, outputs));
      }
      let mut payload = Vec::new();
      for i in &ints {
        leb(*i, &mut payload);
      }
      // sometimes damage the byte level too
      let mut class = format!("mutated/{}", kinds[0]);
      match rng.below(10) {
        0 => {
          payload.push(0x80);
          class = "bytes/unterminated".into();
        }
        1 => {
          let p = rng.usize(0, payload.len());
          payload.splice(p..p, [0xffu8; 19].into_iter().chain([0x7f]));
          class = "bytes/overflow".into();
        }
        2 => {
          let p = rng.usize(0, payload.len());
          payload.splice(p..p, [0x80u8; 19].into_iter().chain([0x00]));
          class = "bytes/overlong".into();
        }
        _ => {}
      }
      let mut script = script_from_payload(&payload, &mut rng);
      match rng.below(12) {
        0 => {
          script.push(*rng.pick(&[0x4f, 0x51, 0x60, 0x6a, 0xac, 0xff]));
          class = "script/trailing-opcode".into();
        }
        1 => {
          script.push(rng.range(1, 78) as u8);
          class = "script/truncated-push".into();
        }
        _ => {}
      }
      let mut scripts: Vec<Vec<u8>> = (0..before).map(|i| vec![0x51, i as u8]).collect();
      scripts.push(script);
      scripts.extend((0..after).map(|i| vec![0x52, i as u8]));
      if rng.chance(1, 8) {
        // a later runestone output must be ignored
        scripts.push(vec![0x6a, 0x5d]);
      }
      compare(&tx_with(scripts), &class, rep, &replay);

      // random scripts
      let n = rng.usize(0, 3);
      let scripts = (0..n).map(|_| gen_random_script(&mut rng)).collect();
      compare(&tx_with(scripts), "random-script", rep, &replay);
    }
  }
}
