//! C23 — node-funded wallet transactions never spend inscribed or runic outputs.
//!
//! The real `ord wallet` command line runs against the mock node through a
//! recording JSON-RPC proxy. The wallet is populated (by block injection) so
//! that inscribed and runic outputs are the *largest* ones: the mock node funds
//! largest-first among unlocked outputs, so a missing lock is always
//! exploited. Monitors over the RPC history: inputs added by
//! `fundrawtransaction` (funded minus unfunded), every `lockunspent` that
//! precedes it, and every transaction that reaches `sendrawtransaction` /
//! the mempool or a PSBT handed to `walletprocesspsbt`.

use crate::{
  ctx::Ctx,
  idx::IndexCfg,
  report::Report,
  rng::Rng,
  walletlab::{Lab, RpcCall, foreign_script},
};
use bitcoin::{OutPoint, Transaction, consensus::encode::deserialize};
use ordinals::{RuneId, Terms};
use serde_json::json;
use std::collections::{BTreeMap, BTreeSet};

pub struct Wallet {
  pub cardinals: Vec<OutPoint>,
  pub inscribed: Vec<(OutPoint, ord::InscriptionId)>,
  pub runic: Vec<(OutPoint, Vec<(RuneId, u128)>)>,
  pub runes: Vec<(RuneId, String, u8)>,
  pub mintable: Option<(RuneId, String)>,
  pub foreign_inscription: Option<ord::InscriptionId>,
}

pub fn tx_from_hex(h: &str) -> Option<Transaction> {
  let bytes = hex::decode(h).ok()?;
  if let Ok(tx) = deserialize::<Transaction>(&bytes) {
    return Some(tx);
  }
  // a transaction without inputs (to be funded by the node) is serialised in
  // the legacy format, which the library reads as a segwit marker
  if bytes.len() > 10 && bytes[4] == 0 {
    let mut legacy = bytes[..4].to_vec();
    legacy.extend([0x00, 0x01, 0x00]); // marker, flag, zero inputs
    legacy.extend(&bytes[5..]);
    if let Ok(tx) = deserialize::<Transaction>(&legacy) {
      return Some(tx);
    }
    // only the (empty) input list matters to the monitor
    return Some(Transaction { version: bitcoin::transaction::Version(2), lock_time: bitcoin::absolute::LockTime::ZERO, input: Vec::new(), output: Vec::new() });
  }
  None
}

/// Populate a wallet whose non-cardinal outputs are worth more than any cardinal one.
pub fn populate(lab: &mut Lab, rng: &mut Rng, rep: &mut Report) -> anyhow::Result<Wallet> {
  let r = lab.wallet(&["create"]);
  if !r.ok() {
    anyhow::bail!("wallet create failed: {}", r.stderr);
  }
  let banks = lab.mine_empty(12);
  let mut bank = banks.into_iter();
  let big = || 0;
  let _ = big;
  let mut w = Wallet { cardinals: Vec::new(), inscribed: Vec::new(), runic: Vec::new(), runes: Vec::new(), mintable: None, foreign_inscription: None };
  // cardinals: a few small ones
  let n_card = rng.usize(2, 5);
  let values: Vec<u64> = (0..n_card).map(|_| rng.range(30_000, 200_000)).collect();
  w.cardinals = lab.pay_wallet(bank.next().unwrap(), &values);
  // inscribed outputs, larger than every cardinal
  for i in 0..rng.usize(1, 3) {
    let script = lab.wallet_script();
    let (op, id) = lab.inscribe_to(bank.next().unwrap(), script, rng.range(1_000_000, 50_000_000), format!("inscription {i}").as_bytes());
    w.inscribed.push((op, id));
  }
  // runes: two runes, outputs larger than every cardinal, one output holding both
  let n_runes = rng.usize(1, 2);
  let mut all_runic: Vec<(OutPoint, RuneId, u128)> = Vec::new();
  for _ in 0..n_runes {
    let k = rng.usize(1, 3);
    let dist: Vec<_> = (0..k).map(|_| (lab.wallet_script(), rng.range(1_000_000, 40_000_000), u128::from(rng.range(50, 5000)))).collect();
    let div = rng.below(4) as u8;
    let (id, outs) = lab.etch(bank.next().unwrap(), &dist, div, None);
    for (o, d) in outs.iter().zip(dist.iter()) {
      all_runic.push((*o, id, d.2));
    }
    w.runes.push((id, String::new(), div));
  }
  if n_runes == 2 && rng.chance(1, 2) {
    // merge one output of each rune into a single wallet output
    let a = all_runic.iter().position(|x| x.1 == w.runes[0].0).unwrap();
    let a = all_runic.remove(a);
    let b = all_runic.iter().position(|x| x.1 == w.runes[1].0).unwrap();
    let b = all_runic.remove(b);
    let script = lab.wallet_script();
    let merged = lab.merge(&[a.0, b.0], script, 900_000);
    w.runic.push((merged, vec![(a.1, a.2), (b.1, b.2)]));
    rep.count("wallets_with_two_runes_in_one_output");
  }
  for (o, id, amount) in all_runic {
    w.runic.push((o, vec![(id, amount)]));
  }
  // a rune that can be minted (held by nobody in the wallet)
  if rng.chance(2, 3) {
    let (id, _) = lab.etch(bank.next().unwrap(), &[(foreign_script(0x31), 10_000, 1)], 0, Some(Terms { amount: Some(100), cap: Some(1000), height: (None, None), offset: (None, None) }));
    w.mintable = Some((id, String::new()));
  }
  // an inscription owned by somebody else, to make an offer for
  let (_, id) = lab.inscribe_to(bank.next().unwrap(), foreign_script(0x32), 10_000, b"theirs");
  w.foreign_inscription = Some(id);
  lab.mine_empty(1);
  lab.sync()?;
  // names from the index
  let entries: BTreeMap<RuneId, ord::RuneEntry> = lab.explorer.index.runes()?.into_iter().collect();
  for r in w.runes.iter_mut() {
    r.1 = entries.get(&r.0).map(|e| e.spaced_rune.to_string()).ok_or_else(|| anyhow::anyhow!("etched rune {} not in the index", r.0))?;
  }
  if let Some(m) = w.mintable.as_mut() {
    m.1 = entries.get(&m.0).map(|e| e.spaced_rune.to_string()).ok_or_else(|| anyhow::anyhow!("mintable rune not in the index"))?;
  }
  Ok(w)
}

/// Outputs of the wallet that the index lists as holding inscriptions or runes.
pub fn non_cardinal(lab: &Lab) -> anyhow::Result<BTreeSet<OutPoint>> {
  let mut set = BTreeSet::new();
  for u in lab.explorer.index.verif_utxos()? {
    if u.inscriptions.as_ref().is_some_and(|i| !i.is_empty())
      && let Some(out) = lab.txout(&u.outpoint)
      && lab.is_wallet_script(&out.script_pubkey)
    {
      set.insert(u.outpoint);
    }
  }
  for (o, b) in lab.explorer.index.get_rune_balances()? {
    if !b.is_empty()
      && let Some(out) = lab.txout(&o)
      && lab.is_wallet_script(&out.script_pubkey)
    {
      set.insert(o);
    }
  }
  Ok(set)
}

pub fn run(ctx: &Ctx, rep: &mut Report) {
  for case in ctx.cases(u64::MAX) {
    let mut rng = ctx.rng(case);
    let replay = json!({"replay": ctx.replay_info(case)});
    let mut cfg = IndexCfg::from_bits(0);
    cfg.inscriptions = true;
    cfg.runes = true;
    cfg.sats = rng.chance(1, 3);
    cfg.addresses = rng.chance(1, 3);
    // a server without an inscription index (runes only): the wallet then needs
    // the address or the sat index, and only runic outputs can be protected
    if rng.chance(1, 4) {
      cfg.inscriptions = false;
      if !cfg.sats {
        cfg.addresses = true;
      }
      rep.count("wallets_on_a_server_without_inscription_index");
    }
    let mut lab = match Lab::new(&ctx.scratch, case, &cfg) {
      Ok(l) => l,
      Err(e) => {
        rep.inconclusive(format!("lab: {e}"));
        continue;
      }
    };
    let t_pop = std::time::Instant::now();
    let w = match populate(&mut lab, &mut rng, rep) {
      Ok(w) => w,
      Err(e) => {
        rep.inconclusive(format!("populate: {e}"));
        lab.stop();
        continue;
      }
    };
    rep.add("ms_spent_populating", t_pop.elapsed().as_millis() as u64);
    rep.count("wallets");
    rep.distinct(&(cfg.label(), w.cardinals.len(), w.inscribed.len(), w.runic.len(), w.runes.len(), w.mintable.is_some()));

    // a sequence of node-funded commands on the same wallet
    let recipient = bitcoin::Address::from_script(&foreign_script(0x41), bitcoin::Network::Regtest).unwrap().to_string();
    let mut commands: Vec<(&'static str, Vec<String>)> = Vec::new();
    commands.push(("send-amount", vec!["send".into(), "--fee-rate".into(), "1".into(), recipient.clone(), format!("{}sat", rng.range(1_000, 20_000))]));
    if let Some((_, name)) = &w.mintable {
      commands.push(("mint", vec!["mint".into(), "--fee-rate".into(), "1".into(), "--rune".into(), name.clone()]));
    }
    for (_, name, _) in &w.runes {
      commands.push(("send-runes", vec!["send".into(), "--fee-rate".into(), "1".into(), recipient.clone(), format!("{}:{}", rng.range(1, 20), name)]));
      commands.push(("burn-runes", vec!["burn".into(), "--fee-rate".into(), "1".into(), format!("{}:{}", rng.range(1, 10), name)]));
    }
    if let Some(id) = w.foreign_inscription {
      commands.push(("offer-create", vec!["offer".into(), "create".into(), "--inscription".into(), id.to_string(), "--amount".into(), "10000sat".into(), "--fee-rate".into(), "1".into()]));
    }
    if let Some((_, name, _)) = w.runes.first() {
      let split = lab.dir.join("splits.yaml");
      std::fs::write(&split, format!("outputs:\n- address: {recipient}\n  runes:\n    {name}: {}\n", rng.range(1, 10))).unwrap();
      commands.push(("split", vec!["split".into(), "--fee-rate".into(), "1".into(), "--splits".into(), split.display().to_string()]));
    }
    rng.shuffle(&mut commands);

    for (kind, args) in commands {
      if !ctx.time_left() && ctx.only_case.is_none() {
        break;
      }
      if let Err(e) = lab.sync() {
        rep.inconclusive(format!("sync: {e}"));
        break;
      }
      let protected = match non_cardinal(&lab) {
        Ok(p) => p,
        Err(e) => {
          rep.inconclusive(format!("hook H2: {e}"));
          break;
        }
      };
      lab.clear_mempool();
      let mark = lab.proxy.mark();
      let argv: Vec<&str> = args.iter().map(|s| s.as_str()).collect();
      let t_cmd = std::time::Instant::now();
      let r = lab.wallet(&argv);
      rep.add("ms_spent_in_commands", t_cmd.elapsed().as_millis() as u64);
      rep.eval();
      let calls = lab.proxy.since(mark);
      let describe = format!("`ord wallet {}` (exit {:?}) stderr: {}", args.join(" "), r.status, r.stderr.chars().take(300).collect::<String>());
      if r.panicked() && r.stderr.contains("mockcore") {
        rep.inconclusive(format!("mock node panicked: {describe}"));
        break;
      }
      judge(kind, &calls, &protected, &lab, rep, &replay, &describe);
      if rep.want_sample() {
        rep.sample(json!({
          "command": format!("ord wallet {}", args.join(" ")),
          "exit": r.status,
          "protected_outputs": protected.iter().map(|o| o.to_string()).collect::<Vec<_>>(),
          "rpc_history": calls.iter().filter(|c| matches!(c.method.as_str(), "lockunspent" | "fundrawtransaction" | "sendrawtransaction" | "signrawtransactionwithwallet" | "walletprocesspsbt")).map(|c| match c.method.as_str() {
            "lockunspent" => format!("lockunspent({}, {} outputs)", c.params[0], c.params[1].as_array().map(|a| a.len()).unwrap_or(0)),
            m => m.to_string(),
          }).collect::<Vec<_>>(),
        }));
      }
      if r.ok() {
        rep.count(&format!("command_ok_{kind}"));
      } else {
        rep.count(&format!("command_failed_{kind}"));
        rep.observe(format!("{kind}: {}", r.stderr.chars().take(200).collect::<String>()));
      }
      // confirm what was broadcast so that the next command sees a settled wallet
      lab.mine_mempool();
      // the node keeps its locks: release them like a user would between commands
      lab.node.handle.state().locked.clear();
    }
    lab.stop();
    let _ = std::fs::remove_dir_all(&lab.dir);
  }
}

fn inputs_of(tx: &Transaction) -> BTreeSet<OutPoint> {
  tx.input.iter().map(|i| i.previous_output).collect()
}

fn judge(kind: &str, calls: &[RpcCall], protected: &BTreeSet<OutPoint>, lab: &Lab, rep: &mut Report, replay: &serde_json::Value, describe: &str) {
  // every outpoint locked so far in this command
  let mut locked: BTreeSet<OutPoint> = BTreeSet::new();
  let mut own_inputs: BTreeSet<OutPoint> = BTreeSet::new();
  let mut funded_any = false;
  for c in calls {
    match c.method.as_str() {
      "lockunspent" => {
        if c.params[0].as_bool() == Some(false)
          && let Some(list) = c.params[1].as_array()
        {
          for o in list {
            if let (Some(txid), Some(vout)) = (o["txid"].as_str(), o["vout"].as_u64())
              && let Ok(txid) = txid.parse()
            {
              locked.insert(OutPoint { txid, vout: vout as u32 });
            }
          }
        }
        rep.count("lockunspent_calls");
      }
      "fundrawtransaction" => {
        funded_any = true;
        rep.count("fundrawtransaction_calls");
        let unfunded = c.params[0].as_str().and_then(tx_from_hex);
        let funded = c.result["hex"].as_str().and_then(tx_from_hex);
        let (Some(unfunded), Some(funded)) = (unfunded, funded) else {
          if c.error.is_null() {
            rep.inconclusive(format!("cannot decode fundrawtransaction call {}", c.seq));
          }
          continue;
        };
        own_inputs.extend(inputs_of(&unfunded));
        let added: BTreeSet<OutPoint> = inputs_of(&funded).difference(&inputs_of(&unfunded)).copied().collect();
        rep.add("inputs_added_by_node", added.len() as u64);
        // (a) the lock must be in place before the node chooses
        let unprotected: Vec<_> = protected.iter().filter(|o| !locked.contains(o) && !own_inputs.contains(o)).collect();
        if !unprotected.is_empty() {
          rep.violation(
            &format!("C23/{kind}/funded-without-locking-non-cardinal-outputs"),
            format!("{describe}\nfundrawtransaction was called while {} inscribed/runic wallet outputs were neither locked by this command nor its own inputs: {:?}", unprotected.len(), unprotected),
            replay.clone(),
          );
        } else {
          rep.count("fund_calls_with_all_non_cardinals_locked");
        }
        // (b) what the node added
        for o in &added {
          if protected.contains(o) {
            rep.violation(&format!("C23/{kind}/node-added-inscribed-or-runic-input"), format!("{describe}\nthe node added {o}, which holds inscriptions or runes"), replay.clone());
          }
        }
      }
      "sendrawtransaction" => {
        rep.count("sendrawtransaction_calls");
        if let Some(tx) = c.params[0].as_str().and_then(tx_from_hex) {
          for o in inputs_of(&tx) {
            if protected.contains(&o) && !own_inputs.contains(&o) {
              rep.violation(&format!("C23/{kind}/broadcast-spends-inscribed-or-runic-output"), format!("{describe}\nbroadcast transaction spends {o}"), replay.clone());
            }
          }
        }
      }
      _ => {}
    }
  }
  // whatever reached the mempool
  for tx in lab.mempool() {
    for o in inputs_of(&tx) {
      if protected.contains(&o) && !own_inputs.contains(&o) {
        rep.violation(&format!("C23/{kind}/mempool-spends-inscribed-or-runic-output"), format!("{describe}\nmempool transaction {} spends {o}", tx.compute_txid()), replay.clone());
      }
    }
    rep.count("mempool_transactions_checked");
  }
  if funded_any {
    rep.count(&format!("funded_{kind}"));
  }
}
