//! C35 — index storage encodings read back what was written.
//!
//! Monitor: generated values of every persisted type are pushed through the
//! index's own `store`/`load` pairs (hook H4), and again through an in-memory
//! redb database opened with the index's own table definitions (write
//! transaction, commit, read transaction). Output entries are built, stored,
//! parsed and merged with the real builder/parser of real `Index` objects
//! opened under all 8 combinations of the sat / address / inscription
//! switches. Oracle: identity, plus an independent unpacking of the packed
//! sat-range layout documented in `src/index/entry.rs`.

use crate::{ctx::Ctx, idx::IndexCfg, node::Node, report::{Report, catch}, rng::Rng};
use bitcoin::{
  BlockHash, CompactTarget, OutPoint, TxMerkleNode, Txid,
  block::{Header, Version},
  hashes::Hash,
};
use ord::{
  Index, InscriptionId, RuneEntry,
  index::verif::{InscriptionEntry, VerifCodecBatch, verif_codec_direct, verif_codec_through_redb},
};
use ordinals::{Rune, RuneId, Sat, SatPoint, SpacedRune, Terms};
use serde_json::json;

const SUPPLY: u64 = Sat::SUPPLY;
const MAX_SUBSIDY: u64 = 50 * 100_000_000;

fn edge_u64(rng: &mut Rng) -> u64 {
  match rng.below(8) {
    0 => 0,
    1 => u64::MAX,
    2 => u64::from(u32::MAX) + rng.below(3) - 1,
    3 => 1u64 << rng.below(64),
    4 => (1u64 << rng.below(64)).wrapping_sub(1),
    5 => rng.log_u64(),
    _ => rng.next_u64(),
  }
}

fn edge_u32(rng: &mut Rng) -> u32 {
  match rng.below(6) {
    0 => 0,
    1 => u32::MAX,
    2 => 1u32 << rng.below(32),
    3 => (1u32 << rng.below(32)).wrapping_sub(1),
    _ => rng.next_u32(),
  }
}

fn edge_u128(rng: &mut Rng) -> u128 {
  rng.edge_u128()
}

fn gen_txid(rng: &mut Rng) -> Txid {
  let bytes: [u8; 32] = match rng.below(6) {
    0 => [0; 32],
    1 => [0xff; 32],
    2 => {
      // one half zero: the two u128 halves of InscriptionIdValue / RuneEntryValue
      let mut b = [0u8; 32];
      let half = rng.bytes(16);
      if rng.chance(1, 2) {
        b[..16].copy_from_slice(&half)
      } else {
        b[16..].copy_from_slice(&half)
      }
      b
    }
    _ => rng.bytes(32).try_into().unwrap(),
  };
  Txid::from_byte_array(bytes)
}

fn gen_sat_range(rng: &mut Rng) -> (u64, u64) {
  let start = match rng.below(8) {
    0 => 0,
    1 => SUPPLY - 1,
    2 => (1u64 << rng.range(40, 50)) - rng.below(2),
    3 => 1u64 << rng.below(51),
    4 => SUPPLY - 1 - rng.below(MAX_SUBSIDY),
    _ => rng.below(SUPPLY),
  };
  let len = match rng.below(8) {
    0 => 0,
    1 => MAX_SUBSIDY,
    2 => 1,
    3 => MAX_SUBSIDY - rng.below(3),
    4 => 1u64 << rng.below(33),
    _ => rng.below(MAX_SUBSIDY + 1),
  }
  .min(MAX_SUBSIDY);
  (start, start + len)
}

/// The documented layout: 11 little-endian bytes, low 51 bits = start,
/// the next 33 bits = length.
fn reference_unpack(bytes: &[u8]) -> (u64, u64) {
  let mut n: u128 = 0;
  for (i, b) in bytes.iter().enumerate() {
    n |= u128::from(*b) << (8 * i);
  }
  let base = (n & ((1u128 << 51) - 1)) as u64;
  let delta = ((n >> 51) & ((1u128 << 33) - 1)) as u64;
  (base, base + delta)
}

fn gen_header(rng: &mut Rng) -> Header {
  Header {
    version: Version::from_consensus(rng.next_u32() as i32),
    prev_blockhash: BlockHash::from_byte_array(rng.bytes(32).try_into().unwrap()),
    merkle_root: TxMerkleNode::from_byte_array(rng.bytes(32).try_into().unwrap()),
    time: edge_u32(rng),
    bits: CompactTarget::from_consensus(edge_u32(rng)),
    nonce: edge_u32(rng),
  }
}

fn gen_char(rng: &mut Rng) -> char {
  loop {
    let c = match rng.below(6) {
      0 => 0,
      1 => 0x10FFFF,
      2 => 0xD7FF + rng.below(2) as u32 * 0x801, // D7FF, E000
      3 => rng.below(128) as u32,
      _ => rng.below(0x110000) as u32,
    };
    if let Some(c) = char::from_u32(c) {
      return c;
    }
  }
}

fn gen_rune_entry(rng: &mut Rng) -> RuneEntry {
  RuneEntry {
    block: edge_u64(rng),
    burned: edge_u128(rng),
    divisibility: rng.below(256) as u8,
    etching: gen_txid(rng),
    mints: edge_u128(rng),
    number: edge_u64(rng),
    premine: edge_u128(rng),
    spaced_rune: SpacedRune {
      rune: Rune(edge_u128(rng)),
      spacers: edge_u32(rng),
    },
    symbol: if rng.chance(1, 4) { None } else { Some(gen_char(rng)) },
    terms: if rng.chance(1, 4) {
      None
    } else {
      let opt64 = |rng: &mut Rng| if rng.chance(1, 3) { None } else { Some(edge_u64(rng)) };
      Some(Terms {
        amount: if rng.chance(1, 3) { None } else { Some(edge_u128(rng)) },
        cap: if rng.chance(1, 3) { None } else { Some(edge_u128(rng)) },
        height: (opt64(rng), opt64(rng)),
        offset: (opt64(rng), opt64(rng)),
      })
    },
    timestamp: edge_u64(rng),
    turbo: rng.chance(1, 2),
  }
}

fn gen_inscription_id(rng: &mut Rng) -> InscriptionId {
  InscriptionId {
    txid: gen_txid(rng),
    index: edge_u32(rng),
  }
}

fn gen_inscription_entry(rng: &mut Rng) -> InscriptionEntry {
  let n_parents = match rng.below(6) {
    0 => 0,
    1 => 1,
    2 => rng.usize(2, 5),
    3 => rng.usize(20, 200),
    _ => rng.usize(0, 3),
  };
  InscriptionEntry {
    charms: rng.next_u32() as u16,
    fee: edge_u64(rng),
    height: edge_u32(rng),
    hidden: rng.chance(1, 2),
    id: gen_inscription_id(rng),
    inscription_number: match rng.below(5) {
      0 => i32::MIN,
      1 => i32::MAX,
      2 => -1,
      3 => 0,
      _ => rng.next_u32() as i32,
    },
    parents: (0..n_parents).map(|_| edge_u32(rng)).collect(),
    sat: if rng.chance(1, 3) {
      None
    } else {
      Some(Sat(match rng.below(4) {
        0 => 0,
        1 => SUPPLY - 1,
        2 => edge_u64(rng),
        _ => rng.below(SUPPLY),
      }))
    },
    sequence_number: edge_u32(rng),
    timestamp: edge_u32(rng),
  }
}

fn gen_outpoint(rng: &mut Rng) -> OutPoint {
  if rng.chance(1, 10) {
    return OutPoint::null();
  }
  OutPoint {
    txid: gen_txid(rng),
    vout: edge_u32(rng),
  }
}

fn gen_rune_id(rng: &mut Rng) -> RuneId {
  RuneId {
    block: edge_u64(rng),
    tx: edge_u32(rng),
  }
}

fn gen_batch(rng: &mut Rng, n: usize) -> VerifCodecBatch {
  let mut batch = VerifCodecBatch::default();
  for _ in 0..n {
    batch.sat_ranges.push(gen_sat_range(rng));
    batch.headers.push(gen_header(rng));
    batch.rune_entries.push(gen_rune_entry(rng));
    batch.inscription_entries.push(gen_inscription_entry(rng));
    batch.inscription_ids.push(gen_inscription_id(rng));
    batch.outpoints.push(gen_outpoint(rng));
    batch.satpoints.push(SatPoint {
      outpoint: gen_outpoint(rng),
      offset: edge_u64(rng),
    });
    batch.txids.push(gen_txid(rng));
    batch.rune_ids.push(gen_rune_id(rng));
    batch.runes.push(Rune(edge_u128(rng)));
    let k = match rng.below(5) {
      0 => 0,
      1 => 1,
      2 => rng.usize(10, 60),
      _ => rng.usize(0, 6),
    };
    batch.rune_balances.push((0..k).map(|_| (gen_rune_id(rng), edge_u128(rng))).collect());
  }
  batch
}

macro_rules! compare_field {
  ($rep:expr, $replay:expr, $route:expr, $input:expr, $output:expr, $field:ident) => {{
    let a = &$input.$field;
    let b = &$output.$field;
    if a.len() != b.len() {
      $rep.violation(
        &format!("C35/{}/{}/count-differs", $route, stringify!($field)),
        format!("{} values written, {} read back", a.len(), b.len()),
        $replay.clone(),
      );
    } else {
      for (x, y) in a.iter().zip(b.iter()) {
        $rep.eval();
        if x == y {
          $rep.count(concat!("readback_ok_", stringify!($field)));
        } else {
          $rep.violation(
            &format!("C35/{}/{}/readback-differs", $route, stringify!($field)),
            format!("wrote {:?}\nread  {:?}", x, y),
            $replay.clone(),
          );
        }
      }
    }
  }};
}

fn compare(rep: &mut Report, replay: &serde_json::Value, route: &str, input: &VerifCodecBatch, output: &VerifCodecBatch) {
  compare_field!(rep, replay, route, input, output, sat_ranges);
  compare_field!(rep, replay, route, input, output, headers);
  compare_field!(rep, replay, route, input, output, rune_entries);
  compare_field!(rep, replay, route, input, output, inscription_entries);
  compare_field!(rep, replay, route, input, output, inscription_ids);
  compare_field!(rep, replay, route, input, output, outpoints);
  compare_field!(rep, replay, route, input, output, satpoints);
  compare_field!(rep, replay, route, input, output, txids);
  compare_field!(rep, replay, route, input, output, rune_ids);
  compare_field!(rep, replay, route, input, output, runes);
  compare_field!(rep, replay, route, input, output, rune_balances);
  compare_field!(rep, replay, route, input, output, utxo_entries);
}

#[derive(Debug, Clone)]
struct EntrySpec {
  value: u64,
  ranges: Vec<(u64, u64)>,
  script: Vec<u8>,
  inscriptions: Vec<(u32, u64)>,
}

fn gen_entry(rng: &mut Rng, special: bool) -> EntrySpec {
  let n_ranges = match rng.below(8) {
    0 => 0,
    1 => 1,
    2 => rng.usize(100, 200),
    3 => rng.usize(127, 129), // varint length boundary of the count
    _ => rng.usize(0, 12),
  };
  let ranges: Vec<(u64, u64)> = (0..n_ranges).map(|_| gen_sat_range(rng)).collect();
  let n_insc = match rng.below(8) {
    0 => 0,
    1 => 1,
    2 => rng.usize(100, 200),
    _ => rng.usize(0, 8),
  };
  let inscriptions = (0..n_insc)
    .map(|_| {
      (
        edge_u32(rng),
        match rng.below(4) {
          0 => 0,
          1 => edge_u64(rng),
          2 => (1u64 << (7 * rng.below(10))).wrapping_sub(rng.below(2)),
          _ => rng.below(MAX_SUBSIDY),
        },
      )
    })
    .collect();
  let script = if special {
    Vec::new()
  } else {
    let len = match rng.below(8) {
      0 => 0,
      1 => rng.usize(126, 130),
      2 => rng.usize(9_000, 10_000),
      3 => rng.usize(16_382, 16_386),
      _ => rng.usize(1, 40),
    };
    rng.bytes(len)
  };
  EntrySpec {
    value: if special { 0 } else { edge_u64(rng).min(21_000_000 * 100_000_000) },
    ranges,
    script,
    inscriptions,
  }
}

struct Idx {
  index: Index,
  sats: bool,
  addresses: bool,
  inscriptions: bool,
  _dir: tempfile::TempDir,
}

fn check_parsed(
  rep: &mut Report,
  replay: &serde_json::Value,
  idx: &Idx,
  what: &str,
  bytes: &[u8],
  want_value: u64,
  want_ranges: &[(u64, u64)],
  want_script: &[u8],
  want_inscriptions: &[(u32, u64)],
) {
  rep.eval();
  let label = format!("{}{}{}", u8::from(idx.sats), u8::from(idx.addresses), u8::from(idx.inscriptions));
  match catch(|| idx.index.verif_parse_utxo_entry(bytes)) {
    Err(p) => rep.violation(
      &format!("C35/utxo-entry/{what}/parse-panic"),
      format!("flags sats/addresses/inscriptions={label}: {p}"),
      replay.clone(),
    ),
    Ok(parsed) => {
      let mut bad = Vec::new();
      if idx.sats {
        if parsed.sat_ranges.as_deref() != Some(want_ranges) {
          bad.push(format!("sat ranges: wrote {:?} read {:?}", want_ranges, parsed.sat_ranges));
        }
        let sum: u64 = want_ranges.iter().map(|r| r.1 - r.0).sum();
        if parsed.value != sum {
          bad.push(format!("total value {} != sum of range lengths {}", parsed.value, sum));
        }
      } else if parsed.value != want_value {
        bad.push(format!("value: wrote {} read {}", want_value, parsed.value));
      }
      if idx.addresses && parsed.script_pubkey.as_deref() != Some(want_script) {
        bad.push(format!("script: wrote {} bytes read {:?}", want_script.len(), parsed.script_pubkey.as_ref().map(|s| s.len())));
      }
      if idx.inscriptions && parsed.inscriptions.as_deref() != Some(want_inscriptions) {
        bad.push(format!("inscriptions: wrote {:?} read {:?}", want_inscriptions, parsed.inscriptions));
      }
      if bad.is_empty() {
        rep.count(&format!("utxo_{what}_ok"));
        rep.count(&format!("utxo_flags_{label}"));
      } else {
        rep.violation(
          &format!("C35/utxo-entry/{what}/readback-differs"),
          format!("flags sats/addresses/inscriptions={label}: {}", bad.join("; ")),
          replay.clone(),
        );
      }
    }
  }
}

pub fn run(ctx: &Ctx, rep: &mut Report) {
  // eight real Index objects, one per combination of the switches that
  // change the entry layout
  let node = Node::new(bitcoin::Network::Regtest);
  let mut indexes = Vec::new();
  for bits in 0..8u32 {
    let dir = tempfile::Builder::new().prefix("c35").tempdir_in(if ctx.scratch.is_empty() { "/tmp" } else { &ctx.scratch }).unwrap();
    let cfg = IndexCfg {
      sats: bits & 1 != 0,
      addresses: bits & 2 != 0,
      inscriptions: bits & 4 != 0,
      runes: false,
      transactions: false,
      ..IndexCfg::all()
    };
    match cfg.open(&node, dir.path()) {
      Ok(index) => indexes.push(Idx { index, sats: cfg.sats, addresses: cfg.addresses, inscriptions: cfg.inscriptions, _dir: dir }),
      Err(e) => {
        rep.inconclusive(format!("cannot open index {bits}: {e}"));
        return;
      }
    }
  }

  if ctx.deterministic_part() {
    // every start bit x every length bit of the packed sat range
    let replay = ctx.replay_info(u64::MAX);
    let mut batch = VerifCodecBatch::default();
    for sb in 0..=50u32 {
      for lb in 0..=32u32 {
        for (ds, dl) in [(0u64, 0u64), (1, 0), (0, 1), (1, 1)] {
          let start = ((1u64 << sb) - ds).min(SUPPLY - 1);
          let len = ((1u64 << lb) - dl).min(MAX_SUBSIDY);
          batch.sat_ranges.push((start, start + len));
        }
      }
    }
    batch.sat_ranges.push((SUPPLY - 1, SUPPLY - 1 + MAX_SUBSIDY));
    match catch(|| verif_codec_direct(&batch)) {
      Ok(Ok(out)) => compare(rep, &replay, "direct", &batch, &out),
      Ok(Err(e)) => rep.violation("C35/direct/error", e.to_string(), replay.clone()),
      Err(p) => rep.violation("C35/direct/panic", p, replay.clone()),
    }
    rep.count("sat_range_bit_grid_enumerated");
  }

  for case in ctx.cases(u64::MAX) {
    let mut rng = ctx.rng(case);
    let replay = ctx.replay_info(case);
    let n = rng.usize(8, 40);
    let mut batch = gen_batch(&mut rng, n);

    // output entries under each configuration
    let mut specs = Vec::new();
    for (k, idx) in indexes.iter().enumerate() {
      for _ in 0..3 {
        let spec = gen_entry(&mut rng, false);
        let built = catch(|| idx.index.verif_build_utxo_entry(spec.value, &spec.ranges, &spec.script, &spec.inscriptions));
        match built {
          Ok(bytes) => {
            batch.utxo_entries.push(bytes);
            specs.push((k, spec));
          }
          Err(p) => rep.violation("C35/utxo-entry/build-panic", format!("{spec:?}: {p}"), replay.clone()),
        }
      }
    }
    rep.distinct(&(n, batch.rune_balances.iter().map(|b| b.len()).max(), specs.iter().map(|(k, s)| (*k, s.ranges.len().min(3), s.inscriptions.len().min(3), s.script.len().min(200) / 100)).collect::<Vec<_>>()));

    // independent unpacking of the packed range layout
    for (k, (_, spec)) in specs.iter().enumerate() {
      if indexes[specs[k].0].sats && !indexes[specs[k].0].addresses && !indexes[specs[k].0].inscriptions {
        let bytes = &batch.utxo_entries[k];
        let count_len = if spec.ranges.len() < 128 { 1 } else { 2 };
        if bytes.len() == count_len + 11 * spec.ranges.len() {
          for (i, want) in spec.ranges.iter().enumerate() {
            rep.eval();
            let got = reference_unpack(&bytes[count_len + 11 * i..count_len + 11 * i + 11]);
            if got == *want {
              rep.count("packed_layout_ok");
            } else {
              rep.violation("C35/sat-range/packed-layout-differs", format!("range {want:?} stored as bytes that denote {got:?}"), replay.clone());
            }
          }
        } else {
          rep.violation("C35/utxo-entry/sats-only-length", format!("{} ranges stored in {} bytes", spec.ranges.len(), bytes.len()), replay.clone());
        }
      }
    }

    match catch(|| verif_codec_direct(&batch)) {
      Ok(Ok(out)) => compare(rep, &replay, "direct", &batch, &out),
      Ok(Err(e)) => rep.violation("C35/direct/error", e.to_string(), replay.clone()),
      Err(p) => rep.violation(&format!("C35/direct/panic/{}", crate::report::panic_signature(&p)), p, replay.clone()),
    }
    let through = catch(|| verif_codec_through_redb(&batch));
    match through {
      Ok(Ok(out)) => {
        compare(rep, &replay, "redb", &batch, &out);
        rep.count("redb_transactions");
        if out.utxo_entries.len() == specs.len() {
          for ((k, spec), bytes) in specs.iter().zip(out.utxo_entries.iter()) {
            check_parsed(rep, &replay, &indexes[*k], "entry", bytes, spec.value, &spec.ranges, &spec.script, &spec.inscriptions);
          }
        }
      }
      Ok(Err(e)) => rep.violation("C35/redb/error", e.to_string(), replay.clone()),
      Err(p) => rep.violation(&format!("C35/redb/panic/{}", crate::report::panic_signature(&p)), p, replay.clone()),
    }

    // merging pseudo-output entries keeps everything of both, in order
    for idx in &indexes {
      let a = gen_entry(&mut rng, true);
      let b = gen_entry(&mut rng, true);
      let r = catch(|| {
        let ea = idx.index.verif_build_utxo_entry(0, &a.ranges, &[], &a.inscriptions);
        let eb = idx.index.verif_build_utxo_entry(0, &b.ranges, &[], &b.inscriptions);
        // merging is repeated at every commit: fold a third entry in as well
        let m = idx.index.verif_merge_utxo_entries(&ea, &eb);
        let m2 = idx.index.verif_merge_utxo_entries(&m, &ea);
        (m, m2)
      });
      match r {
        Err(p) => rep.violation("C35/utxo-entry/merge-panic", p, replay.clone()),
        Ok((m, m2)) => {
          let ranges: Vec<_> = a.ranges.iter().chain(b.ranges.iter()).copied().collect();
          let insc: Vec<_> = a.inscriptions.iter().chain(b.inscriptions.iter()).copied().collect();
          check_parsed(rep, &replay, idx, "merge", &m, 0, &ranges, &[], &insc);
          let ranges2: Vec<_> = ranges.iter().chain(a.ranges.iter()).copied().collect();
          let insc2: Vec<_> = insc.iter().chain(a.inscriptions.iter()).copied().collect();
          check_parsed(rep, &replay, idx, "merge", &m2, 0, &ranges2, &[], &insc2);
        }
      }
    }
    if rep.want_sample() {
      rep.sample(json!({
        "sat_range": format!("{:?}", batch.sat_ranges[0]),
        "rune_entry": format!("{:?}", batch.rune_entries[0]),
        "inscription_entry": format!("{:?}", batch.inscription_entries[0]),
        "rune_balances": format!("{:?}", batch.rune_balances[0]),
        "utxo_entry_bytes": batch.utxo_entries[0].len(),
      }));
    }
  }
}
