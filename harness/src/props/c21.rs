//! C21 — batch inscribing produces exactly the inscriptions and locations it reports.
//!
//! The real `ord wallet batch` runs on generated batch files (four modes,
//! parents, postage, destinations, metadata, metaprotocol, delegates) against
//! generated wallets; the harness mines the commit and reveal transactions it
//! broadcast, lets the real indexer process them and compares the command's
//! JSON report with the index: every reported id exists at exactly the
//! reported satpoint in an output paying the reported destination, nothing
//! else was inscribed, parents are recorded and back on wallet addresses, and
//! neither transaction spent an inscribed or runic output it had no business
//! spending.

use super::c23::{non_cardinal, tx_from_hex};
use crate::{
  ctx::Ctx,
  idx::IndexCfg,
  report::Report,
  walletlab::{Lab, foreign_script},
};
use bitcoin::{Address, Network, OutPoint};
use ord::InscriptionId;
use ordinals::SatPoint;
use serde::Deserialize;
use serde_json::json;
use std::collections::BTreeSet;

#[derive(Deserialize, Debug)]
struct InscriptionInfo {
  destination: String,
  id: InscriptionId,
  location: SatPoint,
}

#[derive(Deserialize, Debug)]
struct RuneInfo {
  destination: Option<String>,
  location: Option<OutPoint>,
  rune: ordinals::SpacedRune,
}

#[derive(Deserialize, Debug)]
struct BatchOutput {
  rune: Option<RuneInfo>,
  commit: bitcoin::Txid,
  inscriptions: Vec<InscriptionInfo>,
  parents: Vec<InscriptionId>,
  reveal: bitcoin::Txid,
  total_fees: u64,
}

pub fn run(ctx: &Ctx, rep: &mut Report) {
  for case in ctx.cases(u64::MAX) {
    let mut rng = ctx.rng(case);
    let replay = json!({"replay": ctx.replay_info(case)});
    let mut cfg = IndexCfg::from_bits(0);
    cfg.inscriptions = true;
    cfg.runes = true;
    cfg.sats = rng.chance(1, 2);
    let mut lab = match Lab::new(&ctx.scratch, case, &cfg) {
      Ok(l) => l,
      Err(e) => {
        rep.inconclusive(format!("lab: {e}"));
        continue;
      }
    };
    let r = lab.wallet(&["create"]);
    if !r.ok() {
      rep.inconclusive(format!("wallet create failed: {}", r.stderr));
      lab.stop();
      continue;
    }
    let mut banks = lab.mine_empty(16).into_iter();
    // cardinals large enough to fund batches, inscriptions that can be parents / delegates, one runic output
    // a third of the wallets hold only small cardinals: no single one covers
    // what a commit needs, so the builder has to combine several (and must
    // still leave the runic output alone, which is then of similar size)
    let fragmented = rng.chance(1, 3);
    if fragmented {
      rep.count("wallets_with_fragmented_cardinals");
    }
    let values: Vec<u64> = if fragmented { (0..rng.usize(8, 14)).map(|_| rng.range(2_500, 9_500)).collect() } else { (0..rng.usize(4, 8)).map(|_| rng.range(200_000, 3_000_000)).collect() };
    let mut cardinals = lab.pay_wallet(banks.next().unwrap(), &values);
    let mut owned_inscriptions: Vec<InscriptionId> = Vec::new();
    for i in 0..rng.usize(1, 3) {
      let script = lab.wallet_script();
      let (_, id) = lab.inscribe_to(banks.next().unwrap(), script, rng.range(5_000, 5_000_000), format!("parent {i}").as_bytes());
      owned_inscriptions.push(id);
    }
    let script = lab.wallet_script();
    let runic_value = if fragmented { rng.range(6_000, 10_000) } else { rng.range(10_000, 6_000_000) };
    lab.etch(banks.next().unwrap(), &[(script, runic_value, 500)], 0, None);
    let (_, foreign_id) = lab.inscribe_to(banks.next().unwrap(), foreign_script(0x71), 10_000, b"delegate target");
    lab.mine_empty(1);
    rep.count("wallets");

    for round in 0..4 {
      if !ctx.time_left() && ctx.only_case.is_none() {
        break;
      }
      if let Err(e) = lab.sync() {
        rep.inconclusive(format!("sync: {e}"));
        break;
      }
      // cardinals still unspent
      cardinals.retain(|o| lab.node.utxo_value(o).is_some());
      let mode = *rng.pick(&["separate-outputs", "shared-output", "same-sat", "satpoints"]);
      let n = match rng.below(6) {
        0 => 1,
        1 => rng.usize(4, 7),
        _ => rng.usize(2, 3),
      };
      if mode == "satpoints" && cardinals.len() < n {
        continue;
      }
      let dir = lab.dir.join(format!("batch{round}"));
      std::fs::create_dir_all(&dir).unwrap();
      let mut yaml = format!("mode: {mode}\n");
      // parents that are still in the wallet
      let mut parents: Vec<InscriptionId> = Vec::new();
      let n_parents = *rng.pick(&[0usize, 0, 1, 1, 2]);
      for id in owned_inscriptions.iter().take(n_parents) {
        parents.push(*id);
      }
      if !parents.is_empty() {
        yaml.push_str("parents:\n");
        for p in &parents {
          yaml.push_str(&format!("- {p}\n"));
        }
      }
      let postage = (mode != "satpoints" && rng.chance(1, 2)).then(|| *rng.pick(&[546u64, 1000, 3333, 10_000, 20_000]));
      if let Some(p) = postage {
        yaml.push_str(&format!("postage: {p}\n"));
      }
      if mode == "same-sat" && rng.chance(1, 2) && !cardinals.is_empty() {
        yaml.push_str(&format!("satpoint: {}:0\n", rng.pick(&cardinals)));
      }
      // a rune etched by the same batch: the command waits until the commit has
      // matured (six blocks), so somebody has to mine while it runs
      let etch = rng.chance(1, 4);
      let mut etched: Option<(String, u8, u128, u128)> = None;
      if etch {
        let letters: String = (0..rng.usize(13, 17)).map(|_| (b'A' + rng.below(26) as u8) as char).collect();
        let name = if rng.chance(1, 2) { format!("{}•{}", &letters[..5], &letters[5..]) } else { letters.clone() };
        let div = rng.below(4) as u8;
        let unit = 10u128.pow(u32::from(div));
        let premine = if rng.chance(1, 5) { 0 } else { u128::from(rng.range(1, 5000)) * unit + u128::from(rng.below(unit as u64)) };
        let (cap, amount) = if rng.chance(1, 2) || premine == 0 { (u128::from(rng.range(1, 50)), u128::from(rng.range(1, 900)) * unit) } else { (0, 0) };
        let supply = premine + cap * amount;
        let dec = |v: u128| if div == 0 { v.to_string() } else { format!("{}.{:0w$}", v / unit, v % unit, w = usize::from(div)) };
        yaml.push_str(&format!("etching:\n  rune: {name}\n  divisibility: {div}\n  premine: {}\n  supply: {}\n  symbol: \"¢\"\n  turbo: {}\n", dec(premine), dec(supply), rng.chance(1, 2)));
        if cap > 0 {
          yaml.push_str(&format!("  terms:\n    amount: {}\n    cap: {cap}\n", dec(amount)));
        }
        etched = Some((name, div, premine, cap));
      }
      yaml.push_str("inscriptions:\n");
      let mut destinations: Vec<Option<String>> = Vec::new();
      let mut used_satpoints: Vec<OutPoint> = Vec::new();
      for i in 0..n {
        let ext = *rng.pick(&["txt", "json", "png", "html"]);
        let path = dir.join(format!("f{i}.{ext}"));
        let hi = if rng.chance(1, 8) { 3000 } else { 200 };
        std::fs::write(&path, rng.some_bytes(1, hi)).unwrap();
        yaml.push_str(&format!("- file: {}\n", path.display()));
        let mut dest = None;
        if mode == "separate-outputs" || mode == "satpoints" {
          match rng.below(3) {
            0 => {}
            1 => dest = Some(Address::from_script(&foreign_script(0x80 + i as u8), Network::Regtest).unwrap().to_string()),
            _ => dest = Some(lab.new_wallet_address().to_string()),
          }
        }
        if let Some(d) = &dest {
          yaml.push_str(&format!("  destination: {d}\n"));
        }
        destinations.push(dest);
        if mode == "satpoints" {
          let sp = cardinals.iter().find(|o| !used_satpoints.contains(o)).copied().unwrap();
          used_satpoints.push(sp);
          yaml.push_str(&format!("  satpoint: {sp}:0\n"));
        }
        if rng.chance(1, 4) {
          yaml.push_str("  metaprotocol: proto-7\n");
        }
        if rng.chance(1, 4) {
          yaml.push_str("  metadata:\n    title: a title\n    n: 7\n");
        }
        if rng.chance(1, 5) {
          yaml.push_str(&format!("  delegate: {foreign_id}\n"));
        }
        if rng.chance(1, 6) {
          yaml.push_str("  title: Named\n  traits:\n    colour: blue\n    size: 3\n");
        }
      }
      let batch_path = dir.join("batch.yaml");
      std::fs::write(&batch_path, &yaml).unwrap();

      let protected = non_cardinal(&lab).unwrap_or_default();
      lab.clear_mempool();
      lab.node.handle.state().locked.clear();
      let mark = lab.proxy.mark();
      let fee = rng.pick(&["1", "3.3", "11"]).to_string();
      let mut args = vec!["batch".to_string(), "--fee-rate".into(), fee, "--batch".into(), batch_path.display().to_string()];
      if rng.chance(1, 5) {
        args.push("--compress".into());
      }
      let argv: Vec<&str> = args.iter().map(|s| s.as_str()).collect();
      let stop = std::sync::atomic::AtomicBool::new(false);
      let r = std::thread::scope(|scope| {
        if etch {
          scope.spawn(|| {
            // start mining once the commit has been broadcast (mining earlier
            // would leave the explorer behind the node while the wallet starts)
            while !stop.load(std::sync::atomic::Ordering::Relaxed) {
              if !lab.node.handle.state().mempool.is_empty() {
                break;
              }
              std::thread::sleep(std::time::Duration::from_millis(10));
            }
            while !stop.load(std::sync::atomic::Ordering::Relaxed) {
              lab.node.handle.mine_blocks(1);
              std::thread::sleep(std::time::Duration::from_millis(40));
            }
          });
        }
        let r = lab.wallet(&argv);
        stop.store(true, std::sync::atomic::Ordering::Relaxed);
        r
      });
      rep.eval();
      rep.distinct(&(mode, n, parents.len(), postage, cfg.sats, etch));
      if !r.ok() {
        rep.count(&format!("batches_refused_{mode}"));
        rep.observe(format!("{mode}: {}", r.stderr.chars().take(160).collect::<String>()));
        if !lab.mempool().is_empty() {
          rep.violation("C21/failed-command-left-transactions-in-mempool", format!("{}\n{yaml}", r.stderr), replay.clone());
          lab.clear_mempool();
        }
        continue;
      }
      let Ok(out) = serde_json::from_str::<BatchOutput>(&r.stdout) else {
        rep.violation("C21/report-not-parseable", r.stdout.chars().take(400).collect(), replay.clone());
        continue;
      };
      let describe = format!("batch file:\n{yaml}report: {:?}", out);
      let mempool = lab.mempool();
      let confirmed = |txid: &bitcoin::Txid| lab.node.handle.state().transactions.get(txid).cloned();
      let commit = mempool.iter().find(|t| t.compute_txid() == out.commit).cloned().or_else(|| confirmed(&out.commit));
      let reveal = mempool.iter().find(|t| t.compute_txid() == out.reveal).cloned().or_else(|| confirmed(&out.reveal));
      let (Some(commit), Some(reveal)) = (commit, reveal) else {
        rep.violation("C21/reported-transactions-not-broadcast", format!("mempool holds {:?}\n{describe}", mempool.iter().map(|t| t.compute_txid()).collect::<Vec<_>>()), replay.clone());
        continue;
      };
      // where the parents were before
      let mut parent_outpoints: BTreeSet<OutPoint> = BTreeSet::new();
      for p in &parents {
        if let Ok(Some(sp)) = lab.explorer.index.get_inscription_satpoint_by_id(*p) {
          parent_outpoints.insert(sp.outpoint);
        }
      }
      let fees: i64 = [&commit, &reveal]
        .iter()
        .map(|tx| tx.input.iter().filter_map(|i| lab.txout(&i.previous_output)).map(|o| o.value.to_sat() as i64).sum::<i64>() - tx.output.iter().map(|o| o.value.to_sat() as i64).sum::<i64>())
        .sum();
      lab.mine_mempool();
      if let Err(e) = lab.sync() {
        rep.inconclusive(format!("sync after batch: {e}"));
        break;
      }
      let mut bad: Vec<(String, String)> = Vec::new();
      let by_sequence: Vec<InscriptionId> = lab.explorer.index.verif_inscription_tables().map(|t| t.entries.iter().map(|e| e.id).collect()).unwrap_or_default();
      if out.inscriptions.len() != n {
        bad.push(("reported-count".into(), format!("{} inscriptions reported for {n} entries", out.inscriptions.len())));
      }
      // exactly the reported inscriptions were created by the reveal
      let created: Vec<InscriptionId> = (0..64).map(|i| InscriptionId { txid: out.reveal, index: i }).take_while(|id| lab.explorer.index.get_inscription_entry(*id).ok().flatten().is_some()).collect();
      let reported: Vec<InscriptionId> = out.inscriptions.iter().map(|i| i.id).collect();
      if created != reported {
        bad.push(("ids".into(), format!("the indexer created {created:?}, the command reported {reported:?}")));
      }
      for (k, info) in out.inscriptions.iter().enumerate() {
        let Some(entry) = lab.explorer.index.get_inscription_entry(info.id).ok().flatten() else {
          bad.push(("reported-id-not-indexed".into(), format!("{} is not in the index", info.id)));
          continue;
        };
        let at = lab.explorer.index.get_inscription_satpoint_by_id(info.id).ok().flatten();
        if at != Some(info.location) {
          bad.push(("location".into(), format!("inscription {k} ({}) is at {:?}, reported at {}", info.id, at, info.location)));
        }
        match lab.txout(&info.location.outpoint) {
          Some(o) => {
            let addr = Address::from_script(&o.script_pubkey, Network::Regtest).map(|a| a.to_string()).unwrap_or_default();
            if addr != info.destination {
              bad.push(("destination".into(), format!("inscription {k} sits in an output paying {addr}, reported destination {}", info.destination)));
            }
            if let Some(Some(want)) = destinations.get(k)
              && *want != info.destination
            {
              bad.push(("destination-differs-from-batch-file".into(), format!("inscription {k}: batch file says {want}, reported {}", info.destination)));
            }
          }
          None => bad.push(("location-output-missing".into(), format!("{} is not an output of the chain", info.location.outpoint))),
        }
        // recorded parents
        let recorded: BTreeSet<InscriptionId> = entry.parents.iter().filter_map(|s| by_sequence.get(*s as usize).copied()).collect();
        if recorded != parents.iter().copied().collect() {
          bad.push(("parents-not-recorded".into(), format!("inscription {k} has parents {recorded:?}, batch file named {parents:?}")));
        }
        if ordinals::Charm::Unbound.is_set(entry.charms) || ordinals::Charm::Lost.is_set(entry.charms) || ordinals::Charm::Burned.is_set(entry.charms) {
          bad.push(("unbound-lost-or-burned".into(), format!("inscription {k} has charms {:?}", ordinals::Charm::charms(entry.charms))));
        }
      }
      // the etched rune
      match (&etched, &out.rune) {
        (None, None) => {}
        (Some((name, div, premine, _cap)), Some(info)) => {
          let spaced: Option<ordinals::SpacedRune> = name.parse().ok();
          if Some(info.rune) != spaced {
            bad.push(("rune-name".into(), format!("batch file names {name}, reported {}", info.rune)));
          }
          match lab.explorer.index.runes().unwrap_or_default().into_iter().find(|(_, e)| Some(e.spaced_rune) == spaced) {
            None => bad.push(("rune-not-etched".into(), format!("rune {name} is not in the index after the reveal was mined"))),
            Some((id, entry)) => {
              if entry.etching != out.reveal || entry.premine != *premine || entry.divisibility != *div {
                bad.push(("rune-entry".into(), format!("entry {entry:?} vs batch file premine {premine} divisibility {div}, reveal {}", out.reveal)));
              }
              let balances: std::collections::BTreeMap<OutPoint, Vec<(ordinals::RuneId, u128)>> = lab.explorer.index.get_rune_balances().unwrap_or_default().into_iter().collect();
              if *premine > 0 {
                match info.location {
                  None => bad.push(("rune-location-missing".into(), "premine > 0 but no location reported".into())),
                  Some(loc) => {
                    let held: u128 = balances.get(&loc).map(|b| b.iter().filter(|(i, _)| *i == id).map(|(_, a)| *a).sum()).unwrap_or(0);
                    if held != *premine {
                      bad.push(("rune-premine-location".into(), format!("reported premine location {loc} holds {held} units, premine is {premine}")));
                    }
                    let addr = lab.txout(&loc).and_then(|o| Address::from_script(&o.script_pubkey, Network::Regtest).ok()).map(|a| a.to_string());
                    if addr != info.destination {
                      bad.push(("rune-destination".into(), format!("premine output pays {addr:?}, reported {:?}", info.destination)));
                    }
                    if !lab.txout(&loc).is_some_and(|o| lab.is_wallet_script(&o.script_pubkey)) {
                      bad.push(("rune-premine-not-in-wallet".into(), format!("premine output {loc} does not pay a wallet address")));
                    }
                  }
                }
              } else if info.location.is_some() {
                bad.push(("rune-location-without-premine".into(), format!("{:?}", info.location)));
              }
            }
          }
        }
        (a, b) => bad.push(("rune-report".into(), format!("batch file etching {a:?}, reported {b:?}"))),
      }
      if out.parents != parents {
        bad.push(("reported-parents".into(), format!("reported {:?}, batch file {:?}", out.parents, parents)));
      }
      // parents are back in the wallet
      for p in &parents {
        match lab.explorer.index.get_inscription_satpoint_by_id(*p).ok().flatten().and_then(|sp| lab.txout(&sp.outpoint)) {
          Some(o) if lab.is_wallet_script(&o.script_pubkey) => {}
          other => bad.push(("parent-not-returned-to-wallet".into(), format!("parent {p} is now in {:?}", other.map(|o| o.script_pubkey))))
        }
      }
      // no other inscribed or runic output was spent
      for (name, tx) in [("commit", &commit), ("reveal", &reveal)] {
        for i in &tx.input {
          let o = i.previous_output;
          if protected.contains(&o) && !(name == "reveal" && parent_outpoints.contains(&o)) {
            bad.push((format!("{name}-spends-inscribed-or-runic-output"), format!("{name} transaction spends {o}")));
          }
        }
      }
      if fees != out.total_fees as i64 {
        bad.push(("total-fees".into(), format!("transactions pay {fees} sat in fees, reported {}", out.total_fees)));
      }
      let _ = (mark, tx_from_hex);
      if bad.is_empty() {
        if rep.want_sample() {
          rep.sample(json!({"batch_file": yaml, "reported": out.inscriptions.iter().map(|i| format!("{} at {} -> {}", i.id, i.location, i.destination)).collect::<Vec<_>>(), "commit": out.commit.to_string(), "reveal": out.reveal.to_string(), "total_fees": out.total_fees}));
        }
        rep.count("batches_ok");
        rep.count(&format!("batches_ok_{mode}"));
        if etch {
          rep.count("batches_ok_with_etching");
        }
        rep.add("inscriptions_created_and_compared", n as u64);
        if !parents.is_empty() {
          rep.count("batches_ok_with_parents");
        }
        if postage.is_some() {
          rep.count("batches_ok_with_postage");
        }
        if destinations.iter().any(|d| d.is_some()) {
          rep.count("batches_ok_with_destinations");
        }
        // new inscriptions owned by the wallet can be parents later
        for info in &out.inscriptions {
          if lab.txout(&info.location.outpoint).is_some_and(|o| lab.is_wallet_script(&o.script_pubkey)) && owned_inscriptions.len() < 6 && mode == "separate-outputs" {
            owned_inscriptions.push(info.id);
          }
        }
      }
      let mut seen = BTreeSet::new();
      for (what, detail) in bad {
        if seen.insert(what.clone()) {
          rep.violation(&format!("C21/{mode}/{what}"), format!("{detail}\n{describe}"), replay.clone());
        }
      }
    }
    lab.stop();
    let _ = std::fs::remove_dir_all(&lab.dir);
  }
}
