//! C22 — wallet rune sends, burns and splits move exactly the requested amounts.
//!
//! The real command line builds, signs (mock) and broadcasts the transaction;
//! the harness mines it, lets the real indexer apply ord's rune rules to it,
//! and compares the per-script rune balances and burned totals before and
//! after with the request: the recipient gains exactly the amount, the wallet
//! loses exactly that, every other rune of the spent inputs is back on wallet
//! scripts, nothing else is burned; a request for zero units must be refused.

use super::c23::{Wallet, populate};
use crate::{
  ctx::Ctx,
  idx::IndexCfg,
  report::Report,
  rng::Rng,
  walletlab::{Lab, foreign_script},
};
use bitcoin::{Address, Network, ScriptBuf};
use ordinals::RuneId;
use serde_json::json;
use std::collections::BTreeMap;

#[derive(Debug, Clone, Default, PartialEq)]
struct Snapshot {
  /// rune -> units held by wallet scripts
  wallet: BTreeMap<RuneId, u128>,
  /// (script, rune) -> units, for every non-wallet script
  others: BTreeMap<(ScriptBuf, RuneId), u128>,
  burned: BTreeMap<RuneId, u128>,
  mints: BTreeMap<RuneId, u128>,
}

fn snapshot(lab: &Lab) -> anyhow::Result<Snapshot> {
  let mut s = Snapshot::default();
  for (outpoint, balances) in lab.explorer.index.get_rune_balances()? {
    let out = lab.txout(&outpoint).ok_or_else(|| anyhow::anyhow!("{outpoint} holds runes but is not in the chain"))?;
    for (id, amount) in balances {
      if lab.is_wallet_script(&out.script_pubkey) {
        *s.wallet.entry(id).or_default() += amount;
      } else {
        *s.others.entry((out.script_pubkey.clone(), id)).or_default() += amount;
      }
    }
  }
  for (id, entry) in lab.explorer.index.runes()? {
    s.burned.insert(id, entry.burned);
    s.mints.insert(id, entry.mints);
    s.wallet.entry(id).or_default();
  }
  Ok(s)
}

fn decimal(units: u128, divisibility: u8) -> String {
  if divisibility == 0 {
    return units.to_string();
  }
  let scale = 10u128.pow(u32::from(divisibility));
  let frac = format!("{:0width$}", units % scale, width = usize::from(divisibility));
  let frac = frac.trim_end_matches('0');
  if frac.is_empty() { (units / scale).to_string() } else { format!("{}.{}", units / scale, frac) }
}

fn pick_amount(rng: &mut Rng, total: u128, pieces: &[u128]) -> u128 {
  match rng.below(10) {
    0 => 0,
    1 => total,
    2 => total + 1,
    3 if !pieces.is_empty() => *rng.pick(pieces), // exactly one output's balance
    4 if pieces.len() > 1 => pieces[0] + pieces[1],
    5 => 1,
    6 if !pieces.is_empty() => rng.pick(pieces).saturating_sub(1).max(1),
    _ => 1 + rng.below_u128(total.max(1)),
  }
}

struct Outcome {
  ok: bool,
  broadcast: usize,
  stderr: String,
}

fn run_command(lab: &mut Lab, args: &[String]) -> anyhow::Result<(Snapshot, Snapshot, Outcome)> {
  lab.sync()?;
  let before = snapshot(lab)?;
  lab.clear_mempool();
  lab.node.handle.state().locked.clear();
  let argv: Vec<&str> = args.iter().map(|s| s.as_str()).collect();
  let r = lab.wallet(&argv);
  if r.panicked() && r.stderr.contains("mockcore") {
    anyhow::bail!("mock node panicked: {}", r.stderr.chars().take(300).collect::<String>());
  }
  let broadcast = lab.mine_mempool().len();
  lab.sync()?;
  let after = snapshot(lab)?;
  Ok((before, after, Outcome { ok: r.ok(), broadcast, stderr: r.stderr.chars().take(300).collect() }))
}

fn diff(before: &BTreeMap<RuneId, u128>, after: &BTreeMap<RuneId, u128>, id: RuneId) -> i128 {
  after.get(&id).copied().unwrap_or(0) as i128 - before.get(&id).copied().unwrap_or(0) as i128
}

pub fn run(ctx: &Ctx, rep: &mut Report) {
  let mut tag = 0x50u8;
  for case in ctx.cases(u64::MAX) {
    let mut rng = ctx.rng(case);
    let replay = json!({"replay": ctx.replay_info(case)});
    let mut cfg = IndexCfg::from_bits(0);
    cfg.inscriptions = true;
    cfg.runes = true;
    cfg.sats = rng.chance(1, 4);
    let mut lab = match Lab::new(&ctx.scratch, case, &cfg) {
      Ok(l) => l,
      Err(e) => {
        rep.inconclusive(format!("lab: {e}"));
        continue;
      }
    };
    let w: Wallet = match populate(&mut lab, &mut rng, rep) {
      Ok(w) => w,
      Err(e) => {
        rep.inconclusive(format!("populate: {e}"));
        lab.stop();
        continue;
      }
    };
    rep.count("wallets");
    rep.distinct(&(w.runic.len(), w.runes.len(), w.runic.iter().filter(|r| r.1.len() > 1).count()));

    for round in 0..6 {
      if !ctx.time_left() && ctx.only_case.is_none() {
        break;
      }
      let Ok(now) = snapshot(&lab) else { break };
      let (id, name, div) = rng.pick(&w.runes).clone();
      let total = now.wallet.get(&id).copied().unwrap_or(0);
      // current per-output balances of this rune in the wallet
      let pieces: Vec<u128> = lab
        .explorer
        .index
        .get_rune_balances()
        .unwrap_or_default()
        .into_iter()
        .filter(|(o, _)| lab.txout(o).is_some_and(|t| lab.is_wallet_script(&t.script_pubkey)))
        .flat_map(|(_, b)| b.into_iter().filter(|(i, _)| *i == id).map(|(_, a)| a))
        .collect();
      let amount = pick_amount(&mut rng, total, &pieces);
      tag = tag.wrapping_add(1).max(0x50);
      let recipient_script = foreign_script(tag);
      let recipient = Address::from_script(&recipient_script, Network::Regtest).unwrap().to_string();
      let kind = *rng.pick(&["send", "send", "burn", "split"]);
      let fee = rng.pick(&["1", "2.5", "7"]).to_string();
      // a second rune for splits, when there is one
      let second = w.runes.iter().find(|r| r.0 != id).cloned();
      let mut split_spec: Vec<(ScriptBuf, RuneId, u128)> = Vec::new();
      let args: Vec<String> = match kind {
        "send" => vec!["send".into(), "--fee-rate".into(), fee, recipient.clone(), format!("{}:{}", decimal(amount, div), name)],
        "burn" => vec!["burn".into(), "--fee-rate".into(), fee, format!("{}:{}", decimal(amount, div), name)],
        _ => {
          tag = tag.wrapping_add(1).max(0x50);
          let second_script = foreign_script(tag);
          let second_addr = Address::from_script(&second_script, Network::Regtest).unwrap().to_string();
          let mut yaml = format!("outputs:\n- address: {recipient}\n  runes:\n    {name}: {}\n", decimal(amount, div));
          split_spec.push((recipient_script.clone(), id, amount));
          if let Some((id2, name2, div2)) = &second
            && rng.chance(1, 2)
          {
            let total2 = now.wallet.get(id2).copied().unwrap_or(0);
            let a2 = 1 + rng.below_u128(total2.max(1));
            yaml.push_str(&format!("    {name2}: {}\n", decimal(a2, *div2)));
            split_spec.push((recipient_script.clone(), *id2, a2));
          }
          if rng.chance(1, 2) {
            let a3 = (amount / 2).max(1);
            yaml.push_str(&format!("- address: {second_addr}\n  runes:\n    {name}: {}\n", decimal(a3, div)));
            split_spec.push((second_script, id, a3));
          }
          let path = lab.dir.join(format!("splits{round}.yaml"));
          std::fs::write(&path, yaml).unwrap();
          vec!["split".into(), "--fee-rate".into(), fee, "--splits".into(), path.display().to_string()]
        }
      };
      rep.eval();
      let (before, after, outcome) = match run_command(&mut lab, &args) {
        Ok(x) => x,
        Err(e) => {
          rep.inconclusive(format!("{e}"));
          break;
        }
      };
      let describe = format!("`ord wallet {}` (ok={}, {} tx broadcast) wallet held {total} units in outputs {pieces:?}; stderr: {}", args.join(" "), outcome.ok, outcome.broadcast, outcome.stderr);
      let class = if amount == 0 { "zero" } else if amount == total { "all" } else if amount > total { "more-than-held" } else if pieces.contains(&amount) { "exact-output" } else { "partial" };
      rep.count(&format!("requests_{kind}_{class}"));

      // what must have moved
      let mut want_others: BTreeMap<(ScriptBuf, RuneId), u128> = BTreeMap::new();
      let mut want_burn: BTreeMap<RuneId, u128> = BTreeMap::new();
      match kind {
        "send" => {
          want_others.insert((recipient_script.clone(), id), amount);
        }
        "burn" => {
          want_burn.insert(id, amount);
        }
        _ => {
          for (s, r, a) in &split_spec {
            *want_others.entry((s.clone(), *r)).or_default() += *a;
          }
        }
      }
      let requested_zero = want_others.values().any(|a| *a == 0) || want_burn.values().any(|a| *a == 0);

      if !outcome.ok || outcome.broadcast == 0 {
        // refused: nothing may have changed
        if before != after {
          rep.violation(&format!("C22/{kind}/refused-but-balances-changed"), describe.clone(), replay.clone());
        } else {
          rep.count("refusals_left_balances_untouched");
          if requested_zero {
            rep.count("zero_amount_refused");
          }
        }
        continue;
      }
      if requested_zero {
        rep.violation(&format!("C22/{kind}/zero-amount-not-refused"), format!("{describe}\nbalance changes: wallet {:?} burned {:?}", w.runes.iter().map(|r| (r.1.clone(), diff(&before.wallet, &after.wallet, r.0))).collect::<Vec<_>>(), w.runes.iter().map(|r| (r.1.clone(), diff(&before.burned, &after.burned, r.0))).collect::<Vec<_>>()), replay.clone());
        continue;
      }
      let mut bad: Vec<(String, String)> = Vec::new();
      // recipients
      for ((script, rune), want) in &want_others {
        let got = after.others.get(&(script.clone(), *rune)).copied().unwrap_or(0) as i128 - before.others.get(&(script.clone(), *rune)).copied().unwrap_or(0) as i128;
        if got != *want as i128 {
          bad.push(("recipient-amount".into(), format!("recipient {} received {got} units of {rune}, requested {want}", Address::from_script(script, Network::Regtest).unwrap())));
        }
      }
      // nobody else gains
      for (key, amount) in &after.others {
        if !want_others.contains_key(key) && before.others.get(key).copied().unwrap_or(0) != *amount {
          bad.push(("unrelated-script-balance-changed".into(), format!("{:?} went from {:?} to {amount}", key, before.others.get(key))));
        }
      }
      // burns
      for (rune, _, _) in &w.runes {
        let want = want_burn.get(rune).copied().unwrap_or(0) as i128;
        let got = diff(&before.burned, &after.burned, *rune);
        if got != want {
          bad.push((if want == 0 { "unrequested-burn".into() } else { "burn-amount".into() }, format!("burned total of {rune} changed by {got}, requested {want}")));
        }
        // the wallet keeps everything else
        let moved: u128 = want_others.iter().filter(|((_, r), _)| r == rune).map(|(_, a)| *a).sum::<u128>() + want_burn.get(rune).copied().unwrap_or(0);
        let got = diff(&before.wallet, &after.wallet, *rune);
        if got != -(moved as i128) {
          bad.push(("wallet-balance".into(), format!("wallet balance of {rune} changed by {got}, expected -{moved}")));
        }
      }
      if bad.is_empty() {
        if rep.want_sample() {
          rep.sample(json!({
            "command": format!("ord wallet {}", args.join(" ")),
            "wallet_before": before.wallet.iter().map(|(k, v)| (k.to_string(), v.to_string())).collect::<BTreeMap<_, _>>(),
            "wallet_after": after.wallet.iter().map(|(k, v)| (k.to_string(), v.to_string())).collect::<BTreeMap<_, _>>(),
            "burned_after": after.burned.iter().map(|(k, v)| (k.to_string(), v.to_string())).collect::<BTreeMap<_, _>>(),
            "recipients": want_others.iter().map(|((s, r), a)| format!("{} +{a} of {r}", Address::from_script(s, Network::Regtest).unwrap())).collect::<Vec<_>>(),
          }));
        }
        rep.count(&format!("moved_exactly_{kind}"));
        if pieces.len() > 1 {
          rep.count("moved_exactly_with_several_outputs_of_the_rune");
        }
      }
      for (what, detail) in bad {
        rep.violation(&format!("C22/{kind}/{what}"), format!("{detail}\n{describe}"), replay.clone());
      }
    }
    lab.stop();
    let _ = std::fs::remove_dir_all(&lab.dir);
  }
}
