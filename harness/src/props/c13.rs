//! C13 — a crash at any point leaves a consistent index that resumes
//! correctly.
//!
//! The indexer runs in a *worker subprocess* (same binary, `worker`
//! sub-command) against the mock node living in this process. The parent arms
//! a crash plan — abort at the n-th hit of a named H1 point, abort at the n-th
//! hit of any point, or SIGKILL once the worker's progress file shows k trace
//! events — observes the death, reopens the index, and compares its masked
//! dump with the reference dump of the fully committed height it claims to be
//! at; then it lets a fresh worker continue, possibly dying again.

use crate::{
  blockgen::GenCfg,
  chainbuild::{build_chain, extend},
  ctx::Ctx,
  dump::{Dump, diff, differing_tables, masked_dump},
  hooks::Hooks,
  idx::IndexCfg,
  model::Model,
  node::Node,
  report::Report,
  rng::Rng,
};
use bitcoin::{Block, BlockHash, Network};
use serde_json::json;
use std::{collections::HashMap, path::Path, process::Command, time::Duration};

pub const POINTS: &[&str] = &[
  "update.loop",
  "update.start",
  "block.start",
  "block.tx",
  "block.mid",
  "block.end",
  "update.block_indexed",
  "commit.start",
  "commit.before_first",
  "commit.after_first",
  "commit.after_second",
  "savepoint.deleted",
  "savepoint.before_cleanup_commit",
  "savepoint.between",
  "savepoint.created",
  "savepoint.before_commit",
  "savepoint.after_commit",
  "commit.end",
  "update.rebegin",
  "update.end",
  "reorg.recoverable",
  "rollback.start",
  "rollback.before_commit",
  "rollback.after_commit",
];

#[derive(Clone, Debug)]
pub enum Plan {
  None,
  AbortAt(String, u64),
  AbortAny(u64),
  KillAfter(u64),
}

impl Plan {
  fn label(&self) -> String {
    match self {
      Plan::None => "none".into(),
      Plan::AbortAt(p, n) => format!("abort@{p}#{n}"),
      Plan::AbortAny(n) => format!("abort@any#{n}"),
      Plan::KillAfter(n) => format!("sigkill-after-{n}-events"),
    }
  }
}

#[derive(Debug, PartialEq)]
pub enum WorkerEnd {
  Ok,
  Err(String),
  Died(String),
  Fuse,
  Watchdog,
}

/// The worker process body (called from main for `harness worker …`).
pub fn worker_main(args: &[String]) -> ! {
  let get = |name: &str| -> Option<String> { args.iter().position(|a| a == name).and_then(|i| args.get(i + 1).cloned()) };
  let ord_args: Vec<String> = serde_json::from_str(&std::fs::read_to_string(get("--ord-args").unwrap()).unwrap()).unwrap();
  let result = get("--result").unwrap();
  let hooks = Hooks::install();
  hooks.configure(|st| {
    if let (Some(p), Some(n)) = (get("--abort-point"), get("--abort-nth")) {
      st.abort_at = Some((p, n.parse().unwrap()));
    }
    if let Some(n) = get("--abort-any") {
      st.abort_at_any = Some(n.parse().unwrap());
    }
    if let Some(f) = get("--progress") {
      st.progress_file = Some(f.into());
    }
    // logical-step fuse: a livelocked update must not hang the parent
    st.fuses = vec![("update.loop".to_string(), 12)];
  });
  let outcome = std::panic::catch_unwind(|| -> Result<(), String> {
    use clap::Parser;
    let options = ord::options::Options::try_parse_from(&ord_args).map_err(|e| e.to_string())?;
    let settings = ord::settings::Settings::merge(options, Default::default()).map_err(|e| format!("{e:#}"))?;
    let index = ord::Index::open(&settings).map_err(|e| format!("open: {e:#}"))?;
    index.update().map_err(|e| format!("update: {e:#}"))
  });
  let text = match outcome {
    Ok(Ok(())) => "ok".to_string(),
    Ok(Err(e)) => format!("err: {e}"),
    Err(p) => {
      let m = crate::report::payload_message(p.as_ref());
      if m.contains(crate::hooks::FUSE_MARKER) { "fuse".to_string() } else { format!("panic: {m}") }
    }
  };
  let _ = std::fs::write(&result, text);
  std::process::exit(0)
}

fn run_worker(cfg: &IndexCfg, node: &Node, dir: &Path, plan: &Plan, seq: u64) -> WorkerEnd {
  let args_file = dir.join(format!("ord-args-{seq}.json"));
  std::fs::write(&args_file, serde_json::to_string(&cfg.args(node, dir)).unwrap()).unwrap();
  let result_file = dir.join(format!("result-{seq}.txt"));
  let progress_file = dir.join(format!("progress-{seq}.txt"));
  let _ = std::fs::remove_file(&result_file);
  let _ = std::fs::remove_file(&progress_file);
  let mut cmd = Command::new(std::env::current_exe().unwrap());
  cmd.arg("worker").arg("--ord-args").arg(&args_file).arg("--result").arg(&result_file);
  match plan {
    Plan::None => {}
    Plan::AbortAt(p, n) => {
      cmd.arg("--abort-point").arg(p).arg("--abort-nth").arg(n.to_string());
    }
    Plan::AbortAny(n) => {
      cmd.arg("--abort-any").arg(n.to_string());
    }
    Plan::KillAfter(_) => {
      cmd.arg("--progress").arg(&progress_file);
    }
  }
  cmd.stdout(std::process::Stdio::null()).stderr(std::process::Stdio::null());
  let mut child = match cmd.spawn() {
    Ok(c) => c,
    Err(e) => return WorkerEnd::Err(format!("spawn: {e}")),
  };
  let t0 = std::time::Instant::now();
  let mut killed = false;
  loop {
    match child.try_wait() {
      Ok(Some(status)) => {
        use std::os::unix::process::ExitStatusExt;
        if let Some(sig) = status.signal() {
          return WorkerEnd::Died(format!("signal {sig}{}", if killed { " (sent by the checker)" } else { "" }));
        }
        let text = std::fs::read_to_string(&result_file).unwrap_or_default();
        return match text.as_str() {
          "ok" => WorkerEnd::Ok,
          "fuse" => WorkerEnd::Fuse,
          "" => WorkerEnd::Died(format!("exit status {:?} without a result", status.code())),
          other => WorkerEnd::Err(other.to_string()),
        };
      }
      Ok(None) => {}
      Err(e) => return WorkerEnd::Err(format!("wait: {e}")),
    }
    if let Plan::KillAfter(k) = plan
      && !killed
    {
      let lines = std::fs::read(&progress_file).map(|b| b.iter().filter(|c| **c == b'\n').count() as u64).unwrap_or(0);
      if lines >= *k {
        let _ = child.kill(); // SIGKILL
        killed = true;
      }
    }
    if t0.elapsed() > Duration::from_secs(120) {
      let _ = child.kill();
      let _ = child.wait();
      return WorkerEnd::Watchdog;
    }
    std::thread::sleep(Duration::from_micros(300));
  }
}

/// Reference dumps of one chain version: from-scratch, block by block.
fn reference_dumps(cfg: &IndexCfg, network: Network, blocks: &[Block], dir: &Path, into: &mut HashMap<(u32, BlockHash), Dump>) -> Result<(), String> {
  let _ = std::fs::remove_dir_all(dir);
  std::fs::create_dir_all(dir).map_err(|e| e.to_string())?;
  let mut node = Node::new(network);
  let clean = IndexCfg { commit_interval: Some(1), ..cfg.clone() };
  let index = clean.open(&node, dir).map_err(|e| format!("{e:#}"))?;
  index.update().map_err(|e| format!("{e:#}"))?;
  into.insert((1, node.tip()), masked_dump(&index).map_err(|e| e.to_string())?);
  for b in blocks {
    node.push_existing(b);
    index.update().map_err(|e| format!("{e:#}"))?;
    let count = index.block_count().map_err(|e| e.to_string())?;
    into.entry((count, node.tip())).or_insert(masked_dump(&index).map_err(|e| e.to_string())?);
  }
  drop(index);
  let _ = std::fs::remove_dir_all(dir);
  Ok(())
}

/// The same history (grow to a1, update, grow to a2, update, switch, update)
/// with no fault injected: `Ok(None)` if every update succeeded, else the
/// first error text.
fn uninterrupted_outcome(cfg: &IndexCfg, blocks_a: &[Block], a1: u32, a2: u32, depth: u32, b_new: &[Block], dir: &Path) -> Result<Option<String>, String> {
  let _ = std::fs::remove_dir_all(dir);
  std::fs::create_dir_all(dir).map_err(|e| e.to_string())?;
  let mut node = Node::new(Network::Regtest);
  let index = cfg.open(&node, dir).map_err(|e| format!("{e:#}"))?;
  let mut fed = 0usize;
  let mut outcome = None;
  for upto in [a1 as usize, a2 as usize, usize::MAX] {
    if upto == usize::MAX {
      node.pop_blocks(depth);
      for b in b_new {
        node.push_existing(b);
      }
    } else {
      for b in &blocks_a[fed..upto] {
        node.push_existing(b);
      }
      fed = upto;
    }
    match crate::report::catch(|| index.update()) {
      Ok(Ok(())) => {}
      Ok(Err(e)) => {
        outcome = Some(format!("{e:#}"));
        break;
      }
      Err(p) => {
        outcome = Some(format!("panic: {p}"));
        break;
      }
    }
  }
  drop(index);
  let _ = std::fs::remove_dir_all(dir);
  Ok(outcome)
}

fn gen_plan(rng: &mut Rng) -> Plan {
  match rng.below(10) {
    0 => Plan::None,
    1 | 2 => Plan::AbortAny(rng.range(1, 120)),
    3 => Plan::KillAfter(rng.range(1, 80)),
    _ => Plan::AbortAt(rng.pick(POINTS).to_string(), *rng.pick(&[1u64, 1, 2, 3, 5, 8])),
  }
}

pub fn run(ctx: &Ctx, rep: &mut Report) {
  let scratch = if ctx.scratch.is_empty() { "/tmp/verif-scratch".to_string() } else { ctx.scratch.clone() };
  for case in ctx.cases(u64::MAX) {
    let mut rng = ctx.rng(case);
    let replay = ctx.replay_info(case);
    let mut gencfg = GenCfg::default();
    gencfg.w_transfer = 5;
    gencfg.w_reveal = 3;
    gencfg.w_rune = 3;
    gencfg.max_txs = 3;
    let mut cfg = IndexCfg::all();
    cfg.commit_interval = Some(*rng.pick(&[1usize, 2, 3, 5000]));
    cfg.savepoint_interval = Some(3);
    cfg.max_savepoints = Some(2);
    if rng.chance(1, 4) {
      cfg.sats = false;
      cfg.addresses = false;
    }
    let dir = std::path::PathBuf::from(format!("{scratch}/c13-{case}"));
    let _ = std::fs::remove_dir_all(&dir);
    std::fs::create_dir_all(dir.join("main")).unwrap();
    // history: A up to a1, more A up to a2, switch to B (depth d), more B
    let a1 = rng.range(6, 14) as u32;
    let a2 = a1 + rng.range(1, 6) as u32;
    let depth = rng.range(1, 2) as u32;
    let with_reorg = rng.chance(2, 3);
    let chain_a = build_chain(&mut rng, Network::Regtest, &gencfg, a2);
    // branch B shares a2 - depth blocks with A
    let mut node_b = Node::new(Network::Regtest);
    for b in &chain_a.blocks[..(a2 - depth) as usize] {
      node_b.push_existing(b);
    }
    let mut model_b = {
      let mut v = vec![node_b.block_at(0).unwrap()];
      v.extend(node_b.chain());
      Model::replay(&v, &chain_a.model)
    };
    let mut bgen_b = crate::blockgen::Gen::new(gencfg.clone());
    let b_len = depth + rng.range(1, 4) as u32;
    let b_new = extend(&mut rng, &mut node_b, &mut model_b, &mut bgen_b, b_len);
    drop(node_b);
    let mut chain_b: Vec<Block> = chain_a.blocks[..(a2 - depth) as usize].to_vec();
    chain_b.extend(b_new.iter().cloned());
    let mut refs: HashMap<(u32, BlockHash), Dump> = HashMap::new();
    if let Err(e) = reference_dumps(&cfg, Network::Regtest, &chain_a.blocks, &dir.join("ref-a"), &mut refs) {
      rep.inconclusive(format!("reference run on branch A failed: {e}"));
      continue;
    }
    if with_reorg
      && let Err(e) = reference_dumps(&cfg, Network::Regtest, &chain_b, &dir.join("ref-b"), &mut refs)
    {
      rep.inconclusive(format!("reference run on branch B failed: {e}"));
      continue;
    }
    // the crash run
    let mut node = Node::new(Network::Regtest);
    let main = dir.join("main");
    let mut seq = 0u64;
    let steps: Vec<(&str, u32)> = if with_reorg { vec![("grow", a1), ("grow", a2), ("switch", depth), ("done", 0)] } else { vec![("grow", a1), ("grow", a2), ("done", 0)] };
    let mut fed = 0usize;
    let mut aborted_case = false;
    for (what, arg) in steps {
      match what {
        "grow" => {
          for b in &chain_a.blocks[fed..arg as usize] {
            node.push_existing(b);
          }
          fed = arg as usize;
        }
        "switch" => {
          node.pop_blocks(arg);
          for b in &b_new {
            node.push_existing(b);
          }
        }
        _ => break,
      }
      let target = node.height() + 1;
      let mut deaths = 0;
      loop {
        let plan = if deaths >= 3 { Plan::None } else { gen_plan(&mut rng) };
        seq += 1;
        rep.eval();
        let end = run_worker(&cfg, &node, &main, &plan, seq);
        let rp = json!({"replay": replay, "step": what, "plan": plan.label(), "index": cfg.label(), "deaths_before": deaths});
        match &end {
          WorkerEnd::Watchdog => {
            rep.inconclusive("worker exceeded the 120 s wall-clock watchdog");
            aborted_case = true;
          }
          WorkerEnd::Fuse => {
            // the reorg livelock of C14: not this property's business
            rep.count("skipped_reorg_livelock");
            aborted_case = true;
          }
          WorkerEnd::Err(e) if what == "switch" && e.contains("unrecoverable reorg") => {
            // Reported (not silent) failure to undo the reorg: C14's business,
            // unless only the crashed-and-resumed index fails. Run the same
            // history without any fault and compare the outcome.
            match uninterrupted_outcome(&cfg, &chain_a.blocks, a1, a2, depth, &b_new, &dir.join("uninterrupted")) {
              Ok(Some(err)) if err.contains("unrecoverable reorg") => rep.count("histories_unrecoverable_also_without_crash"),
              Ok(other) => rep.violation(
                "C13/unrecoverable-reorg-only-after-crash",
                format!("plan {} after {deaths} crash(es): worker reported {e}; the same history without crashes ended with {other:?}", plan.label()),
                rp.clone(),
              ),
              Err(e2) => rep.inconclusive(format!("uninterrupted comparison run failed: {e2}")),
            }
            aborted_case = true;
          }
          WorkerEnd::Err(e) => {
            rep.violation("C13/worker-error", format!("plan {}: worker reported {e}", plan.label()), rp.clone());
            aborted_case = true;
          }
          WorkerEnd::Ok | WorkerEnd::Died(_) => {}
        }
        if aborted_case {
          break;
        }
        let died = matches!(end, WorkerEnd::Died(_));
        if died {
          deaths += 1;
          rep.count("crashes_injected");
          rep.seen("crash_plans_that_fired", match &plan {
            Plan::AbortAt(p, _) => p.clone(),
            Plan::AbortAny(_) => "any-point".into(),
            Plan::KillAfter(_) => "sigkill".into(),
            Plan::None => "unexpected-death".into(),
          });
          rep.distinct(&(plan.label(), what, cfg.commit_interval));
          if matches!(plan, Plan::None) {
            rep.violation("C13/worker-died-without-fault", format!("{end:?}"), rp.clone());
            aborted_case = true;
            break;
          }
        } else if !matches!(plan, Plan::None) {
          rep.count("crash_plans_not_reached");
        }
        // reopen (repairs if needed) and compare with the committed height it claims
        let opened = cfg.open(&node, &main);
        let index = match opened {
          Ok(i) => i,
          Err(e) => {
            rep.violation("C13/reopen-failed", format!("after {}: {e:#}", plan.label()), rp.clone());
            aborted_case = true;
            break;
          }
        };
        let count = index.block_count().unwrap_or(0);
        if count == 0 {
          // nothing committed yet: a legitimate state (empty index)
          rep.count("reopened_empty");
        } else {
          let tip = index.block_hash(Some(count - 1)).ok().flatten();
          match tip.and_then(|t| refs.get(&(count, t))) {
            None => {
              rep.violation(
                "C13/reopened-at-unknown-state",
                format!("after {}: index claims {count} blocks with tip {tip:?}, which is no committed state of any chain version", plan.label()),
                rp.clone(),
              );
              aborted_case = true;
            }
            Some(want) => match masked_dump(&index) {
              Ok(got) if got == *want => rep.count(if died { "consistent_after_crash" } else { "consistent_after_clean_exit" }),
              Ok(got) => {
                let tables = differing_tables(want, &got);
                rep.violation(
                  &format!("C13/inconsistent-after-crash/{}", tables.join("+")),
                  format!("after {} the index claims height {count} but differs from the committed state of that height: {}", plan.label(), diff(want, &got, "committed", "reopened")),
                  rp.clone(),
                );
                aborted_case = true;
              }
              Err(e) => rep.inconclusive(format!("dump failed: {e}")),
            },
          }
        }
        drop(index);
        if aborted_case {
          break;
        }
        if !died && count == target {
          break;
        }
        if !died && count != target {
          rep.violation("C13/clean-exit-short-of-tip", format!("worker finished with {count} blocks, node has {target}"), rp.clone());
          aborted_case = true;
          break;
        }
      }
      if aborted_case {
        break;
      }
    }
    if !aborted_case {
      rep.count("histories_completed");
      if rep.want_sample() {
        rep.sample(json!({"index": cfg.label(), "blocks_a": a2, "reorg_depth": if with_reorg { depth } else { 0 }, "workers": seq}));
      }
    }
    let _ = std::fs::remove_dir_all(&dir);
  }
}
