//! C31 — text parsers are total and never accept by overflow, and
//! C34 — displayed rune amounts parse back / decimal conversion is exact.
//!
//! Oracle: per-notation reference grammars evaluated with arbitrary-precision
//! integers. A parser may reject; it may not panic, and it may not return a
//! value other than the one the string denotes.

use crate::{big::Big, ctx::Ctx, props::c29, props::c32, report::{Report, catch, panic_signature}, rng::Rng};
use ord::{InscriptionId, decimal::Decimal, outgoing::Outgoing};
use ordinals::{Pile, Rune, RuneId, Sat, SatPoint, SpacedRune};
use serde_json::json;

// ------------------------------------------------------ reference grammars

/// optional '+', at least one ASCII digit
fn ref_uint(s: &str) -> Option<Big> {
  let s = s.strip_prefix('+').unwrap_or(s);
  Big::from_dec(s)
}

fn ref_u64(s: &str) -> Option<u64> {
  ref_uint(s)?.to_u64()
}

fn ref_u32(s: &str) -> Option<u32> {
  ref_uint(s)?.to_u64().and_then(|v| u32::try_from(v).ok())
}

fn height_start(h: u32) -> u64 {
  let mut start = 0u64;
  let mut e = 0;
  while (e + 1) * c29::HALVING <= h {
    start += c29::ref_subsidy(e * c29::HALVING) * u64::from(c29::HALVING);
    e += 1;
  }
  start + u64::from(h - e * c29::HALVING) * c29::ref_subsidy(h)
}

/// What sat (if any) a string denotes. `Err(())` = the reference does not
/// judge this string (float syntax corner), skip.
fn ref_sat(s: &str) -> Result<Option<u64>, ()> {
  if s.chars().any(|c| c.is_ascii_lowercase()) {
    // name
    if !s.chars().all(|c| c.is_ascii_lowercase()) {
      return Ok(None);
    }
    let mut x = Big::zero();
    for c in s.bytes() {
      x = x.mul_small(26).add_small(u32::from(c - b'a') + 1);
    }
    return Ok(match x.to_u64() {
      Some(x) if x <= c29::SUPPLY => Some(c29::SUPPLY - x),
      _ => None,
    });
  }
  if s.contains('°') {
    let Some((c, rest)) = s.split_once('°') else { return Ok(None) };
    let Some((e, rest)) = rest.split_once('′') else { return Ok(None) };
    let Some((p, rest)) = rest.split_once('″') else { return Ok(None) };
    let (o, rest) = match rest.split_once('‴') {
      Some((o, rest)) => (Some(o), rest),
      None => (None, rest),
    };
    if !rest.is_empty() {
      return Ok(None);
    }
    let (Some(c), Some(e), Some(p)) = (ref_uint(c), ref_uint(e), ref_uint(p)) else { return Ok(None) };
    let o = match o {
      Some(o) => match ref_uint(o) {
        Some(o) => o,
        None => return Ok(None),
      },
      None => Big::zero(),
    };
    let (Some(e), Some(p)) = (e.to_u64(), p.to_u64()) else { return Ok(None) };
    if e >= u64::from(c29::HALVING) || p >= u64::from(c29::DIFFCHANGE) {
      return Ok(None);
    }
    // heights h in cycle c with h % 210000 == e and h % 2016 == p
    let mut found = None;
    for k in 0..6u32 {
      let epoch = c.mul_small(6).add_small(k);
      let h = epoch.mul_small(c29::HALVING).add(&Big::from_u64(e));
      let (_, r) = h.divrem_small(c29::DIFFCHANGE);
      if u64::from(r) == p {
        found = Some(h);
        break;
      }
    }
    let Some(h) = found else { return Ok(None) };
    let Some(h) = h.to_u64().filter(|h| *h < u64::from(c29::LAST_SUBSIDY_HEIGHT)) else { return Ok(None) };
    let h = h as u32;
    let Some(o) = o.to_u64().filter(|o| *o < c29::ref_subsidy(h)) else { return Ok(None) };
    return Ok(Some(height_start(h) + o));
  }
  if s.contains('%') {
    let Some(num) = s.strip_suffix('%') else { return Ok(None) };
    // the number is a float literal in Rust's f64 grammar; only judge plain
    // decimal forms and the non-finite words
    let lower = num.to_ascii_lowercase();
    let body = lower.trim_start_matches(['+', '-']);
    if ["nan", "inf", "infinity"].contains(&body) {
      return Ok(None); // non-finite percentages denote nothing
    }
    let Ok(x) = num.parse::<f64>() else { return Ok(None) };
    if !x.is_finite() || x < 0.0 {
      return Ok(None);
    }
    let last = (c29::SUPPLY - 1) as f64;
    let n = (x / 100.0 * last).round();
    if n > last {
      return Ok(None);
    }
    return Ok(Some(n as u64));
  }
  if s.contains('.') {
    let Some((h, o)) = s.split_once('.') else { return Ok(None) };
    let (Some(h), Some(o)) = (ref_uint(h), ref_uint(o)) else { return Ok(None) };
    let Some(h) = h.to_u64().filter(|h| *h < u64::from(c29::LAST_SUBSIDY_HEIGHT)) else { return Ok(None) };
    let h = h as u32;
    let Some(o) = o.to_u64().filter(|o| *o < c29::ref_subsidy(h)) else { return Ok(None) };
    return Ok(Some(height_start(h) + o));
  }
  Ok(ref_uint(s).and_then(|v| v.to_u64()).filter(|v| *v < c29::SUPPLY))
}

fn ref_rune(s: &str) -> Option<u128> {
  if s.is_empty() || !s.bytes().all(|b| b.is_ascii_uppercase()) {
    return None;
  }
  c32::ref_value(s)
}

fn ref_spaced(s: &str) -> Option<(u128, u32)> {
  let mut letters = String::new();
  let mut spacers = 0u32;
  for c in s.chars() {
    match c {
      'A'..='Z' => letters.push(c),
      '.' | '•' => {
        if letters.is_empty() {
          return None;
        }
        let i = letters.len() - 1;
        if i >= 32 {
          return None;
        }
        if spacers & (1 << i) != 0 {
          return None;
        }
        spacers |= 1 << i;
      }
      _ => return None,
    }
  }
  if letters.is_empty() {
    return None;
  }
  // trailing spacer: a spacer after the last letter
  if letters.len() <= 32 && spacers & (1 << (letters.len() - 1)) != 0 {
    return None;
  }
  Some((ref_rune(&letters)?, spacers))
}

/// exact value of a decimal string as (numerator, scale): n / 10^scale
fn ref_decimal(s: &str) -> Option<(Big, u32)> {
  let s = s.strip_prefix('+').unwrap_or(s);
  let (i, f) = match s.split_once('.') {
    Some((i, f)) => (i, f),
    None => (s, ""),
  };
  if i.is_empty() && f.is_empty() {
    return None;
  }
  if !i.bytes().all(|b| b.is_ascii_digit()) || !f.bytes().all(|b| b.is_ascii_digit()) {
    return None;
  }
  let digits = format!("{i}{f}");
  Some((Big::from_dec(&digits)?, f.len() as u32))
}

/// denoted base units at `divisibility`: Some(Ok(n)) exact, Some(Err) not
/// representable (excess precision / overflow), None = not a decimal
fn ref_units(s: &str, divisibility: u8) -> Option<Result<u128, &'static str>> {
  let (n, scale) = ref_decimal(s)?;
  let d = u32::from(divisibility);
  Some(if d >= scale {
    n.mul(&Big::pow10(d - scale)).to_u128().ok_or("overflow")
  } else {
    // n / 10^(scale-d) must be exact
    let mut q = n;
    let mut exact = true;
    for _ in 0..(scale - d) {
      let (qq, r) = q.divrem_small(10);
      if r != 0 {
        exact = false;
        break;
      }
      q = qq;
    }
    if exact { q.to_u128().ok_or("overflow") } else { Err("excess precision") }
  })
}

fn is_hex64(s: &str) -> bool {
  s.len() == 64 && s.bytes().all(|b| b.is_ascii_hexdigit())
}

// --------------------------------------------------------------- generators

fn digits(rng: &mut Rng) -> String {
  let core = match rng.below(14) {
    0 => "0".to_string(),
    1 => rng.below(10).to_string(),
    2 => rng.next_u32().to_string(),
    3 => rng.next_u64().to_string(),
    4 => rng.next_u128().to_string(),
    5 => (u128::from(u32::MAX) + rng.below(3) as u128 - 1).to_string(),
    6 => (u128::from(u64::MAX) + rng.below(3) as u128 - 1).to_string(),
    7 => Big::from_u128(u128::MAX).add_small(rng.below(3) as u32).sub(&Big::from_u64(1)).unwrap().to_dec(),
    8 => (0..rng.usize(40, 400)).map(|_| (b'0' + rng.below(10) as u8) as char).collect(),
    9 => (rng.below(7_000_000)).to_string(),
    10 => (u128::from(u32::MAX) / 6 + rng.below(4) as u128).to_string(),
    11 => (rng.below(210_000)).to_string(),
    12 => rng.below(2016).to_string(),
    _ => rng.log_u64().to_string(),
  };
  match rng.below(12) {
    0 => format!("+{core}"),
    1 => format!("{}{core}", "0".repeat(rng.usize(1, 40))),
    2 => format!("-{core}"),
    3 => String::new(),
    _ => core,
  }
}

fn junk(rng: &mut Rng) -> String {
  const POOL: &[&str] = &["", " ", "-", "+", ".", "..", "%", "°", "′", "″", "‴", "•", ":", "i", "e", "E", "_", "NaN", "inf", "∞", "٣", "１", "\u{0}", "a", "A", "z", "Z", "0x", "1e400", "\n"];
  let n = rng.usize(0, 4);
  (0..n).map(|_| *rng.pick(POOL)).collect()
}

fn maybe_damage(s: String, rng: &mut Rng) -> String {
  match rng.below(12) {
    0 => format!("{s}{}", junk(rng)),
    1 => format!("{}{s}", junk(rng)),
    2 => {
      let chars: Vec<char> = s.chars().collect();
      if chars.is_empty() {
        return s;
      }
      let p = rng.usize(0, chars.len() - 1);
      let mut out: String = chars[..p].iter().collect();
      out.push_str(&junk(rng));
      out.extend(chars[p..].iter());
      out
    }
    _ => s,
  }
}

fn gen_sat_string(rng: &mut Rng) -> String {
  let s = match rng.below(8) {
    0 => digits(rng),
    1 => format!("{}.{}", digits(rng), digits(rng)),
    2 => format!("{}°{}′{}″{}‴", digits(rng), digits(rng), digits(rng), digits(rng)),
    3 => format!("{}°{}′{}″", digits(rng), digits(rng), digits(rng)),
    4 => {
      // a real degree, components perturbed
      let sat = Sat(rng.below(c29::SUPPLY));
      let d = sat.degree();
      let mut parts = [u128::from(d.hour), u128::from(d.minute), u128::from(d.second), u128::from(d.third)];
      if rng.chance(1, 2) {
        let i = rng.usize(0, 3);
        parts[i] = match rng.below(4) {
          0 => parts[i] + 1,
          1 => parts[i] + 336,
          2 => parts[i].wrapping_sub(1) & 0xffff_ffff,
          _ => parts[i] + (1u128 << 32) / 6 * rng.below(7) as u128,
        };
      }
      format!("{}°{}′{}″{}‴", parts[0], parts[1], parts[2], parts[3])
    }
    5 => {
      let num = match rng.below(10) {
        0 => "NaN".to_string(),
        1 => "nan".to_string(),
        2 => "inf".to_string(),
        3 => "-inf".to_string(),
        4 => "infinity".to_string(),
        5 => "1e400".to_string(),
        6 => format!("{}.{}", rng.below(101), digits(rng)),
        7 => format!("{}e{}", rng.below(1000), rng.below(5) as i64 - 2),
        8 => "-0".to_string(),
        _ => format!("{}", (rng.below(1_000_000_000) as f64) / 1e7),
      };
      format!("{num}%")
    }
    6 => {
      let len = rng.usize(1, 13);
      (0..len).map(|_| (b'a' + rng.below(26) as u8) as char).collect()
    }
    _ => {
      // names right around the supply boundary "nvtdijuwxlp"
      let mut name = Sat(rng.below(30)).name().into_bytes();
      if rng.chance(1, 2) {
        let i = rng.usize(0, name.len() - 1);
        name[i] = b'a' + rng.below(26) as u8;
      }
      String::from_utf8(name).unwrap()
    }
  };
  maybe_damage(s, rng)
}

fn gen_letters(rng: &mut Rng) -> String {
  let len = match rng.below(6) {
    0 => 0,
    1 => rng.usize(27, 29),
    2 => rng.usize(30, 40),
    3 => rng.usize(1, 3),
    _ => rng.usize(1, 28),
  };
  let mut s: String = (0..len).map(|_| (b'A' + rng.below(26) as u8) as char).collect();
  if len == 28 && rng.chance(1, 2) {
    // straddle u128::MAX = BCGDENLQRQWDSLRUGSNLBTMFIJAV
    s = "BCGDENLQRQWDSLRUGSNLBTMFIJA".to_string();
    s.push(*rng.pick(&['U', 'V', 'W']));
  }
  s
}

fn gen_spaced_string(rng: &mut Rng) -> String {
  let letters = gen_letters(rng);
  let mut out = String::new();
  let style = rng.below(4);
  for (i, c) in letters.chars().enumerate() {
    if i == 0 && rng.chance(1, 20) {
      out.push('•');
    }
    out.push(c);
    let p = match style {
      0 => 0,
      1 => 1,
      2 => 4,
      _ => 12,
    };
    if p > 0 && rng.chance(p, 12) {
      out.push(if rng.chance(1, 2) { '•' } else { '.' });
      if rng.chance(1, 25) {
        out.push('•');
      }
    }
  }
  maybe_damage(out, rng)
}

fn gen_decimal_string(rng: &mut Rng) -> String {
  let int_digits = |rng: &mut Rng| -> String {
    match rng.below(8) {
      0 => String::new(),
      1 => "0".into(),
      2 => u128::MAX.to_string(),
      3 => (u128::MAX / 10u128.pow(rng.below(39) as u32)).to_string(),
      4 => (0..rng.usize(36, 60)).map(|_| (b'0' + rng.below(10) as u8) as char).collect(),
      _ => rng.log_u128().to_string(),
    }
  };
  let frac = |rng: &mut Rng| -> String {
    let sig = match rng.below(6) {
      0 => 0,
      1 => rng.usize(36, 60),
      2 => rng.usize(250, 300),
      _ => rng.usize(1, 39),
    };
    let lead_zeros = if rng.chance(1, 3) { rng.usize(0, 60) } else { 0 };
    let trail = match rng.below(5) {
      0 => rng.usize(1, 45),
      1 => rng.usize(100, 300),
      _ => 0,
    };
    let mut s = "0".repeat(lead_zeros);
    for i in 0..sig {
      let d = if i + 1 == sig { rng.range(1, 9) } else { rng.below(10) };
      s.push((b'0' + d as u8) as char);
    }
    s.push_str(&"0".repeat(trail));
    s
  };
  let s = match rng.below(6) {
    0 => int_digits(rng),
    1 => format!(".{}", frac(rng)),
    2 => format!("{}.", int_digits(rng)),
    _ => format!("{}.{}", int_digits(rng), frac(rng)),
  };
  let s = if rng.chance(1, 20) { format!("+{s}") } else { s };
  maybe_damage(s, rng)
}

fn gen_hex64(rng: &mut Rng) -> String {
  let mut s: String = rng.bytes(32).iter().map(|b| format!("{b:02x}")).collect();
  match rng.below(10) {
    0 => s = s.to_uppercase(),
    1 => {
      s.pop();
    }
    2 => s.push('0'),
    3 => s.replace_range(10..11, "g"),
    4 => s.replace_range(10..11, "é"),
    _ => {}
  }
  s
}

// -------------------------------------------------------------------- checks

struct Checker<'a> {
  rep: &'a mut Report,
  replay: serde_json::Value,
  prop: &'static str,
}

impl Checker<'_> {
  /// Compare one parse. `want`: Some(v) = the string denotes v (as a debug
  /// string), None = denotes nothing.
  fn judge(&mut self, parser: &str, input: &str, got: Result<Result<String, String>, String>, want: Option<String>) {
    self.rep.eval();
    let class = match (&got, &want) {
      (Err(_), _) => "panic",
      (Ok(Ok(_)), Some(_)) => "accept",
      (Ok(Ok(_)), None) => "accept-nondenoting",
      (Ok(Err(_)), Some(_)) => "reject-denoting",
      (Ok(Err(_)), None) => "reject",
    };
    self.rep.distinct(&(parser.to_string(), class, input.len().min(70), input.chars().filter(|c| !c.is_ascii_alphanumeric()).count().min(6)));
    self.rep.count(&format!("{parser}_{class}"));
    let replay = json!({"replay": self.replay, "parser": parser, "input": input});
    match (got, want) {
      (Err(p), _) => {
        let sig = format!("{}/{parser}/panic/{}", self.prop, panic_signature(&p));
        self.rep.violation(&sig, format!("{parser}::from_str({input:?}) panicked: {p}"), replay);
      }
      (Ok(Ok(v)), Some(w)) if v == w => {}
      (Ok(Ok(v)), Some(w)) => {
        self.rep.violation(&format!("{}/{parser}/wrong-value", self.prop), format!("{parser}::from_str({input:?}) = {v}, but the string denotes {w}"), replay);
      }
      (Ok(Ok(v)), None) => {
        self.rep.violation(&format!("{}/{parser}/accepts-non-denoting", self.prop), format!("{parser}::from_str({input:?}) = {v}, but the string denotes no value"), replay);
      }
      (Ok(Err(_)), _) => {}
    }
  }
}

fn check_sat(s: &str, ck: &mut Checker) {
  let Ok(want) = ref_sat(s) else { return };
  let got = catch(|| s.parse::<Sat>().map(|v| format!("Sat({})", v.0)).map_err(|e| e.to_string()));
  let notation = if s.chars().any(|c| c.is_ascii_lowercase()) {
    "sat-name"
  } else if s.contains('°') {
    "sat-degree"
  } else if s.contains('%') {
    "sat-percentile"
  } else if s.contains('.') {
    "sat-decimal"
  } else {
    "sat-integer"
  };
  ck.judge(notation, s, got, want.map(|v| format!("Sat({v})")));
}

fn check_rune(s: &str, ck: &mut Checker) {
  let got = catch(|| s.parse::<Rune>().map(|v| format!("Rune({})", v.0)).map_err(|e| e.to_string()));
  ck.judge("rune", s, got, ref_rune(s).map(|v| format!("Rune({v})")));
}

fn check_spaced(s: &str, ck: &mut Checker) {
  let got = catch(|| s.parse::<SpacedRune>().map(|v| format!("({}, {})", v.rune.0, v.spacers)).map_err(|e| e.to_string()));
  ck.judge("spaced-rune", s, got, ref_spaced(s).map(|(r, m)| format!("({r}, {m})")));
}

fn check_rune_id(s: &str, ck: &mut Checker) {
  let got = catch(|| s.parse::<RuneId>().map(|v| format!("{}:{}", v.block, v.tx)).map_err(|e| e.to_string()));
  let want = s.split_once(':').and_then(|(b, t)| Some(format!("{}:{}", ref_u64(b)?, ref_u32(t)?)));
  ck.judge("rune-id", s, got, want);
}

fn check_decimal(s: &str, divisibility: u8, ck: &mut Checker) {
  // from_str: the (value, scale) pair must denote the string
  let got = catch(|| s.parse::<Decimal>().map_err(|e| e.to_string()));
  let parsed = match got {
    Err(p) => {
      ck.judge("decimal", s, Err(p), None);
      return;
    }
    Ok(r) => r,
  };
  let reference = ref_decimal(s);
  let denotes = |d: &Decimal| -> bool {
    // value / 10^scale == n / 10^rscale  <=>  value * 10^rscale == n * 10^scale
    match &reference {
      None => false,
      Some((n, rscale)) => Big::from_u128(d.value).mul(&Big::pow10(*rscale)) == n.mul(&Big::pow10(u32::from(d.scale))),
    }
  };
  match &parsed {
    Ok(d) => {
      let ok = denotes(d);
      let want = if ok { Some(format!("{d:?}")) } else { reference.as_ref().map(|(n, sc)| format!("{} / 10^{}", n.to_dec(), sc)) };
      ck.judge("decimal", s, Ok(Ok(format!("{d:?}"))), want);
      if !ok {
        return;
      }
    }
    Err(e) => {
      ck.judge("decimal", s, Ok(Err(e.clone())), reference.as_ref().map(|_| "some value".to_string()));
      return;
    }
  }
  // to_integer: exact base units or an error
  let d = parsed.unwrap();
  let got = catch(|| d.to_integer(divisibility).map(|v| v.to_string()).map_err(|e| e.to_string()));
  let want = match ref_units(s, divisibility) {
    Some(Ok(n)) => Some(n.to_string()),
    _ => None,
  };
  ck.judge("decimal-to-integer", &format!("{s} @{divisibility}"), got, want);
}

fn check_satpoint(s: &str, ck: &mut Checker) {
  let got = catch(|| s.parse::<SatPoint>().map(|v| v.to_string()).map_err(|e| e.to_string()));
  let want = (|| {
    let (outpoint, offset) = s.rsplit_once(':')?;
    let (txid, vout) = outpoint.split_once(':')?;
    if !is_hex64(txid) {
      return None;
    }
    // bitcoin's OutPoint parser wants a canonical vout
    if vout.is_empty() || !vout.bytes().all(|b| b.is_ascii_digit()) || (vout.len() > 1 && vout.starts_with('0')) {
      return None;
    }
    Some(format!("{}:{}:{}", txid.to_ascii_lowercase(), ref_u32(vout)?, ref_u64(offset)?))
  })();
  ck.judge("satpoint", s, got, want);
}

fn check_inscription_id(s: &str, ck: &mut Checker) {
  let got = catch(|| s.parse::<InscriptionId>().map(|v| v.to_string()).map_err(|e| e.to_string()));
  let want = (|| {
    if !s.is_ascii() || s.len() < 66 {
      return None;
    }
    let (txid, rest) = s.split_at(64);
    if !is_hex64(txid) {
      return None;
    }
    let index = rest.strip_prefix('i')?;
    Some(format!("{}i{}", txid.to_ascii_lowercase(), ref_u32(index)?))
  })();
  ck.judge("inscription-id", s, got, want);
}

fn check_outgoing(s: &str, ck: &mut Checker) {
  let got = catch(|| s.parse::<Outgoing>().map_err(|e| e.to_string()));
  let got = match got {
    Err(p) => Err(p),
    Ok(Err(e)) => Ok(Err(e)),
    Ok(Ok(o)) => Ok(Ok(match &o {
      Outgoing::Rune { decimal, rune } => format!("rune {:?} ({}, {})", decimal, rune.rune.0, rune.spacers),
      Outgoing::Sat(sat) => format!("Sat({})", sat.0),
      Outgoing::SatPoint(sp) => format!("satpoint {sp}"),
      Outgoing::InscriptionId(id) => format!("id {id}"),
      Outgoing::Amount(a) => format!("amount {} sat", a.to_sat()),
    })),
  };
  // reference, for the forms this generator produces
  let want = (|| -> Option<String> {
    if !s.is_empty() && s.len() <= 11 && s.bytes().all(|b| b.is_ascii_lowercase()) {
      return ref_sat(s).ok()?.map(|v| format!("Sat({v})"));
    }
    if let Some((amount, rune)) = s.split_once(':')
      && !is_hex64(amount.trim())
    {
      let amount = amount.trim_end();
      let rune = rune.trim_start();
      if amount.starts_with('+') {
        return None;
      }
      let (n, sc) = ref_decimal(amount)?;
      let (r, m) = ref_spaced(rune)?;
      // the exact (value, scale) ord should hold: scale = fractional digits without trailing zeros
      let mut n = n;
      let mut sc = sc;
      while sc > 0 {
        let (q, rem) = n.divrem_small(10);
        if rem != 0 {
          break;
        }
        n = q;
        sc -= 1;
      }
      let value = n.to_u128()?;
      let scale = u8::try_from(sc).ok()?;
      return Some(format!("rune {:?} ({r}, {m})", Decimal { value, scale }));
    }
    None
  })();
  // amounts, satpoints and ids are judged by their own parsers; here only panics count
  let judged = match (&got, &want) {
    (Ok(Ok(v)), None) if v.starts_with("amount") || v.starts_with("satpoint") || v.starts_with("id") => false,
    _ => true,
  };
  if judged {
    ck.judge("outgoing", s, got, want);
  } else {
    ck.rep.eval();
    ck.rep.count("outgoing_other-variant");
  }
}

// ------------------------------------------------------------------- drivers

fn known_probes(ck: &mut Checker) {
  // fixed probes: keep known findings observable in every run
  for s in ["NAN%", "nan%", "NaN%", "-nan%", "inf%", "715827883°0′0″0‴", "4294967295°0′0″0‴", "0°0′0″0‴", "0°0′0″", "2099999997689999", "2099999997690000", "nvtdijuwxlp", "a", "", "6929999.0", "6930000.0", "0.5000000000", "0.4999999999", "100%", "100.00000000000001%"] {
    check_sat(s, ck);
  }
  for s in ["", "A", "BCGDENLQRQWDSLRUGSNLBTMFIJAV", "BCGDENLQRQWDSLRUGSNLBTMFIJAW"] {
    check_rune(s, ck);
  }
  let l33 = "A".repeat(33);
  let l34 = "A".repeat(34);
  for s in [format!("{l33}•A"), format!("{l34}•A"), "A•".to_string(), "•A".to_string(), "A••A".to_string(), "A.A".to_string(), String::new()] {
    check_spaced(&s, ck);
  }
  let fifty = format!("0.{}1", "0".repeat(50));
  let three_hundred = format!("0.{}1", "0".repeat(300));
  let many_sig = format!("0.{}", "1".repeat(39));
  for s in [fifty.as_str(), three_hundred.as_str(), many_sig.as_str(), "340282366920938463463374607431768211455.5", "34028236692093846346337460743176821145.6", "1.", ".1", ".", "", "1.50", "0.00"] {
    for d in [0u8, 1, 38, 39, 255] {
      check_decimal(s, d, ck);
    }
  }
  for s in ["0:UNCOMMON•GOODS", "1.5:A", "1:", ":A", "1 : A", "0.00:A"] {
    check_outgoing(s, ck);
  }
}

fn percent_encode(s: &str) -> String {
  s.bytes().map(|b| if b.is_ascii_alphanumeric() || matches!(b, b'-' | b'_' | b'.' | b'~' | b':') { (b as char).to_string() } else { format!("%{b:02X}") }).collect()
}

/// The explorer's query parsers (src/subcommand/server/query.rs and the path
/// extractors), reached over HTTP on an in-process server: every string must
/// get *an answer* (a handler panic shows as a dropped connection), and
/// `/sat/<s>` may answer 200 only with the sat the string denotes.
fn http_pass(ctx: &Ctx, rep: &mut Report) {
  use crate::{explorer::Explorer, idx::IndexCfg, node::Node};
  let dir = std::path::PathBuf::from(format!("{}/c31http", if ctx.scratch.is_empty() { "/tmp/verif-scratch".to_string() } else { ctx.scratch.clone() }));
  let _ = std::fs::remove_dir_all(&dir);
  std::fs::create_dir_all(&dir).unwrap();
  let mut node = Node::new(bitcoin::Network::Regtest);
  let mut model = crate::model::Model::new();
  model.apply_block(&node.block_at(0).unwrap());
  let mut bgen = crate::blockgen::Gen::new(crate::blockgen::GenCfg::default());
  let mut rng0 = ctx.rng(u64::MAX - 7);
  crate::chainbuild::extend(&mut rng0, &mut node, &mut model, &mut bgen, 12);
  let mut cfg = IndexCfg::all();
  cfg.commit_interval = None;
  let ex = match Explorer::start(&node, &dir, &cfg, &[], &[]) {
    Ok(ex) => ex,
    Err(e) => {
      rep.inconclusive(format!("explorer: {e}"));
      return;
    }
  };
  for case in ctx.cases(u64::MAX) {
    let mut rng = ctx.rng(case);
    let replay = ctx.replay_info(case);
    for _ in 0..16 {
      let sat = gen_sat_string(&mut rng);
      let spaced = gen_spaced_string(&mut rng);
      let id = maybe_damage(format!("{}i{}", gen_hex64(&mut rng), digits(&mut rng)), &mut rng);
      let satpoint = maybe_damage(format!("{}:{}:{}", gen_hex64(&mut rng), digits(&mut rng), digits(&mut rng)), &mut rng);
      let outpoint = maybe_damage(format!("{}:{}", gen_hex64(&mut rng), digits(&mut rng)), &mut rng);
      let number = maybe_damage(format!("{}{}", if rng.chance(1, 3) { "-" } else { "" }, digits(&mut rng)), &mut rng);
      let rune_id = maybe_damage(format!("{}:{}", digits(&mut rng), digits(&mut rng)), &mut rng);
      let hash = maybe_damage(gen_hex64(&mut rng), &mut rng);
      let routes: Vec<(&str, String)> = vec![
        ("sat", format!("/sat/{}", percent_encode(&sat))),
        ("r-sat", format!("/r/sat/{}", percent_encode(&number))),
        ("r-sat-at", format!("/r/sat/{}/at/{}", percent_encode(&sat), percent_encode(&number))),
        ("r-sat-at-content", format!("/r/sat/{}/at/{}/content", percent_encode(&sat), percent_encode(&number))),
        ("inscription", format!("/inscription/{}", percent_encode(if rng.chance(1, 2) { &id } else if rng.chance(1, 2) { &number } else { &sat }))),
        ("inscription-child", format!("/inscription/{}/{}", percent_encode(&id), percent_encode(&number))),
        ("r-inscription", format!("/r/inscription/{}", percent_encode(&id))),
        ("content", format!("/content/{}", percent_encode(&id))),
        ("rune", format!("/rune/{}", percent_encode(if rng.chance(1, 2) { &spaced } else if rng.chance(1, 2) { &rune_id } else { &number }))),
        ("runes-page", format!("/runes/{}", percent_encode(&number))),
        ("block", format!("/block/{}", percent_encode(if rng.chance(1, 2) { &number } else { &hash }))),
        ("r-blockhash", format!("/r/blockhash/{}", percent_encode(&number))),
        ("r-blockinfo", format!("/r/blockinfo/{}", percent_encode(&number))),
        ("inscriptions-block", format!("/inscriptions/block/{}/{}", percent_encode(&number), percent_encode(&digits(&mut rng)))),
        ("inscriptions-page", format!("/inscriptions/{}", percent_encode(&number))),
        ("output", format!("/output/{}", percent_encode(&outpoint))),
        ("r-utxo", format!("/r/utxo/{}", percent_encode(&outpoint))),
        ("satpoint", format!("/satpoint/{}", percent_encode(&satpoint))),
        ("tx", format!("/tx/{}", percent_encode(&hash))),
        ("search", format!("/search/{}", percent_encode(match rng.below(5) { 0 => &sat, 1 => &spaced, 2 => &id, 3 => &outpoint, _ => &number }))),
        ("search-query", format!("/search?query={}", percent_encode(match rng.below(4) { 0 => &sat, 1 => &spaced, 2 => &satpoint, _ => &rune_id }))),
        ("children-page", format!("/r/children/{}/{}", percent_encode(&id), percent_encode(&number))),
        ("input", format!("/input/{}/{}/{}", percent_encode(&number), percent_encode(&digits(&mut rng)), percent_encode(&digits(&mut rng)))),
      ];
      for (route, path) in routes {
        rep.eval();
        let parser = format!("http-{route}");
        match ex.get_json(&path) {
          Err(e) => {
            // no response at all: the handler died
            rep.violation(&format!("C31/{parser}/no-response"), format!("GET {path}: {e}"), json!({"replay": replay, "path": path}));
          }
          Ok(r) => {
            rep.count(&format!("{parser}_status_{}", r.status / 100 * 100));
            rep.distinct(&(parser.clone(), r.status, path.len().min(60) / 6));
            if route == "sat" && r.status == 200 {
              let Ok(want) = ref_sat(&sat) else { continue };
              let served = r.json::<serde_json::Value>().ok().and_then(|v| v["number"].as_u64());
              match (served, want) {
                (Some(n), Some(w)) if n == w => rep.count("http-sat_accept"),
                (Some(n), Some(w)) => rep.violation("C31/http-sat/wrong-value", format!("GET {path} serves sat {n}, but {sat:?} denotes {w}"), json!({"replay": replay, "path": path})),
                (Some(n), None) => rep.violation("C31/http-sat/accepts-non-denoting", format!("GET {path} serves sat {n}, but {sat:?} denotes no sat"), json!({"replay": replay, "path": path})),
                (None, _) => {}
              }
            }
          }
        }
      }
    }
  }
  ex.stop();
  let _ = std::fs::remove_dir_all(&dir);
}

pub fn run_c31(ctx: &Ctx, rep: &mut Report) {
  // two shards in eight exercise the explorer's query parsers over HTTP
  if ctx.shard % 4 == 3 && ctx.only_case.is_none_or(|c| c != u64::MAX) {
    return http_pass(ctx, rep);
  }
  if ctx.deterministic_part() {
    let mut ck = Checker { rep, replay: ctx.replay_info(u64::MAX), prop: "C31" };
    known_probes(&mut ck);
  }
  for case in ctx.cases(u64::MAX) {
    if case == u64::MAX {
      break;
    }
    let mut rng = ctx.rng(case);
    let mut ck = Checker { rep, replay: ctx.replay_info(case), prop: "C31" };
    for _ in 0..64 {
      let s = gen_sat_string(&mut rng);
      check_sat(&s, &mut ck);
      let s = maybe_damage(gen_letters(&mut rng), &mut rng);
      check_rune(&s, &mut ck);
      let s = gen_spaced_string(&mut rng);
      check_spaced(&s, &mut ck);
      let s = maybe_damage(format!("{}:{}", digits(&mut rng), digits(&mut rng)), &mut rng);
      check_rune_id(&s, &mut ck);
      let s = gen_decimal_string(&mut rng);
      let d = *rng.pick(&[0u8, 1, 2, 8, 18, 37, 38, 39, 40, 255]);
      check_decimal(&s, d, &mut ck);
      let s = maybe_damage(format!("{}:{}:{}", gen_hex64(&mut rng), digits(&mut rng), digits(&mut rng)), &mut rng);
      check_satpoint(&s, &mut ck);
      let s = maybe_damage(format!("{}i{}", gen_hex64(&mut rng), digits(&mut rng)), &mut rng);
      check_inscription_id(&s, &mut ck);
      let s = match rng.below(4) {
        0 => format!("{}:{}", gen_decimal_string(&mut rng), gen_spaced_string(&mut rng)),
        1 => format!("{} : {}", gen_decimal_string(&mut rng), gen_spaced_string(&mut rng)),
        2 => format!("{} {}", gen_decimal_string(&mut rng), rng.pick(&["btc", "sat", "sats", "bits", "msat", "xyz"])),
        _ => gen_sat_string(&mut rng),
      };
      check_outgoing(&s, &mut ck);
      if ck.rep.want_sample() {
        ck.rep.sample(json!({"outgoing_input": s, "parsed": format!("{:?}", catch(|| s.parse::<Outgoing>().map_err(|e| e.to_string())))}));
      }
    }
  }
}

pub fn run_c34(ctx: &Ctx, rep: &mut Report) {
  let amounts = |rng: &mut Rng| -> u128 {
    match rng.below(6) {
      0 => 0,
      1 => 1,
      2 => u128::MAX - rng.below(3) as u128,
      3 => 10u128.pow(rng.below(39) as u32).wrapping_add(rng.below(3) as u128).wrapping_sub(1),
      4 => rng.next_u128(),
      _ => rng.log_u128(),
    }
  };
  let check_pile = |amount: u128, divisibility: u8, symbol: Option<char>, rep: &mut Report, replay: &serde_json::Value| {
    rep.eval();
    let r = catch(|| {
      let text = Pile { amount, divisibility, symbol }.to_string();
      // "<number>\u{A0}<symbol>"
      let suffix = format!("\u{A0}{}", symbol.unwrap_or('¤'));
      let number = text.strip_suffix(&suffix).map(|n| n.to_string()).unwrap_or(text.clone());
      let back = number.parse::<Decimal>().map_err(|e| e.to_string()).and_then(|d| d.to_integer(divisibility).map_err(|e| e.to_string()));
      (text, number, back)
    });
    rep.distinct(&("pile", divisibility, 128 - amount.leading_zeros(), amount % 10 == 0));
    let rp = json!({"replay": replay, "amount": amount.to_string(), "divisibility": divisibility});
    match r {
      Err(p) => rep.violation(&format!("C34/pile/panic/{}", panic_signature(&p)), format!("Pile{{{amount}, {divisibility}}}: {p}"), rp),
      Ok((text, number, back)) => {
        // the printed number must itself denote amount / 10^divisibility
        match ref_units(&number, divisibility) {
          Some(Ok(n)) if n == amount => {}
          other => rep.violation("C34/pile/printed-form", format!("Pile{{{amount}, {divisibility}}} prints {text:?} which denotes {other:?}"), rp.clone()),
        }
        if back != Ok(amount) {
          rep.violation("C34/pile/print-parse", format!("Pile{{{amount}, {divisibility}}} prints {text:?}; parsing {number:?} back at {divisibility} gives {back:?}"), rp);
        } else {
          rep.count("pile_roundtrip_ok");
        }
      }
    }
  };
  if ctx.deterministic_part() {
    let replay = ctx.replay_info(u64::MAX);
    for d in 0..=38u8 {
      for k in 0..=38u32 {
        for delta in [-1i32, 0, 1] {
          let a = 10u128.pow(k).wrapping_add_signed(delta.into());
          check_pile(a, d, None, rep, &replay);
        }
      }
      for a in [0, 1, u128::MAX, u128::MAX - 1, u128::MAX / 10, 3u128.wrapping_mul(10u128.pow(u32::from(d)))] {
        check_pile(a, d, Some('$'), rep, &replay);
      }
    }
    let mut ck = Checker { rep, replay: replay.clone(), prop: "C34" };
    let fifty = format!("0.{}1", "0".repeat(50));
    let three_hundred = format!("0.{}1", "0".repeat(300));
    for s in [fifty.as_str(), three_hundred.as_str(), "340282366920938463463374607431768211455.5", "34028236692093846346337460743176821145.6", "1.", ".1", "1.50", "0.00"] {
      for d in [0u8, 1, 38] {
        check_decimal(s, d, &mut ck);
      }
    }
  }
  for case in ctx.cases(u64::MAX) {
    if case == u64::MAX {
      break;
    }
    let mut rng = ctx.rng(case);
    let replay = ctx.replay_info(case);
    for _ in 0..64 {
      let a = amounts(&mut rng);
      let d = rng.below(39) as u8;
      let sym = if rng.chance(1, 2) { Some(*rng.pick(&['¤', '$', '⧉', '.', '1', '\u{A0}'])) } else { None };
      check_pile(a, d, sym, rep, &replay);
      let s = gen_decimal_string(&mut rng);
      let d2 = if rng.chance(1, 6) { rng.below(256) as u8 } else { rng.below(39) as u8 };
      let mut ck = Checker { rep, replay: replay.clone(), prop: "C34" };
      check_decimal(&s, d2, &mut ck);
      if ck.rep.want_sample() {
        ck.rep.sample(json!({"pile": Pile{amount: a, divisibility: d, symbol: sym}.to_string(), "decimal_input": s, "divisibility": d2, "reference_units": format!("{:?}", ref_units(&s, d2))}));
      }
    }
  }
}
