//! C26 — varints round-trip and decoding is exact.
//!
//! Oracle: a reference LEB128 decoder over arbitrary-precision integers.
//! Only depends on `ordinals`, so the same file runs under Miri in /verif/pure.

use crate::{big::Big, ctx::Ctx, report::{Report, catch}, rng::Rng};
use ordinals::varint::{self, Error};
use serde_json::json;

#[derive(Debug, PartialEq)]
enum Expect {
  Ok(u128, usize),
  /// any of these errors is acceptable
  Err(&'static [&'static str]),
}

fn reference(buf: &[u8]) -> Expect {
  // the first terminated group
  let term = buf.iter().position(|b| b & 0x80 == 0);
  match term {
    Some(t) => {
      let len = t + 1;
      let mut n = Big::zero();
      for (i, b) in buf[..len].iter().enumerate() {
        n = n.add(&Big::from_u64(u64::from(b & 0x7f)).shl(7 * i as u32));
      }
      if len > 19 {
        // the nineteenth byte may already overflow, both reports are right
        if buf[18] & 0x7c != 0 {
          Expect::Err(&["Overlong", "Overflow"])
        } else {
          Expect::Err(&["Overlong"])
        }
      } else {
        match n.to_u128() {
          Some(v) => Expect::Ok(v, len),
          None => Expect::Err(&["Overflow"]),
        }
      }
    }
    None => {
      if buf.len() >= 19 && buf[18] & 0x7c != 0 {
        Expect::Err(&["Overflow", "Overlong", "Unterminated"])
      } else if buf.len() > 19 {
        Expect::Err(&["Overlong", "Unterminated"])
      } else {
        Expect::Err(&["Unterminated"])
      }
    }
  }
}

fn err_name(e: &Error) -> &'static str {
  match e {
    Error::Overlong => "Overlong",
    Error::Overflow => "Overflow",
    Error::Unterminated => "Unterminated",
  }
}

fn check_decode(buf: &[u8], rep: &mut Report, replay: &serde_json::Value) {
  rep.eval();
  let expect = reference(buf);
  let got = catch(|| varint::decode(buf));
  let class = match &expect {
    Expect::Ok(v, l) => format!("ok/len{}/bits{}", l, 128 - v.leading_zeros()),
    Expect::Err(k) => format!("err/{}/len{}", k[0], buf.len().min(24)),
  };
  rep.distinct(&class);
  match (&expect, got) {
    (_, Err(p)) => rep.violation(
      "C26/decode/panic",
      format!("decode({}) panicked: {p}", hex(buf)),
      json!({"replay": replay, "bytes": hex(buf)}),
    ),
    (Expect::Ok(v, l), Ok(Ok((gv, gl)))) if *v == gv && *l == gl => rep.count("decode_ok"),
    (Expect::Err(kinds), Ok(Err(e))) if kinds.contains(&err_name(&e)) => {
      rep.count(&format!("decode_err_{}", err_name(&e)))
    }
    (e, Ok(g)) => {
      let sig = match (e, &g) {
        (Expect::Ok(..), Ok(_)) => "C26/decode/wrong-value",
        (Expect::Ok(..), Err(_)) => "C26/decode/rejects-valid",
        (Expect::Err(_), Ok(_)) => "C26/decode/accepts-invalid",
        (Expect::Err(_), Err(_)) => "C26/decode/wrong-error-kind",
      };
      rep.violation(
        sig,
        format!("decode({}) = {:?}, reference {:?}", hex(buf), g, e),
        json!({"replay": replay, "bytes": hex(buf)}),
      )
    }
  }
}

fn check_roundtrip(n: u128, rep: &mut Report, replay: &serde_json::Value) {
  rep.eval();
  let r = catch(|| {
    let enc = varint::encode(n);
    let mut enc2 = vec![0xAA];
    varint::encode_to_vec(n, &mut enc2);
    (enc.clone(), enc2, varint::decode(&enc))
  });
  rep.distinct(&format!("rt/bits{}", 128 - n.leading_zeros()));
  match r {
    Err(p) => rep.violation("C26/roundtrip/panic", format!("n={n}: {p}"), json!({"replay": replay, "n": n.to_string()})),
    Ok((enc, enc2, dec)) => {
      // minimal length: ceil(bits/7), at least 1
      let bits = 128 - n.leading_zeros() as usize;
      let want_len = bits.div_ceil(7).max(1);
      if dec != Ok((n, enc.len())) {
        rep.violation(
          "C26/roundtrip/mismatch",
          format!("n={n} encoded {} decodes to {:?}", hex(&enc), dec),
          json!({"replay": replay, "n": n.to_string()}),
        );
      } else if enc.len() != want_len || enc2[1..] != enc[..] || enc2[0] != 0xAA {
        rep.violation(
          "C26/roundtrip/encoding-shape",
          format!("n={n} encoded {} (expected {} bytes), to_vec {}", hex(&enc), want_len, hex(&enc2)),
          json!({"replay": replay, "n": n.to_string()}),
        );
      } else {
        rep.count("roundtrip_ok");
        // a suffix must not change the decoded prefix
        let mut with_suffix = enc.clone();
        with_suffix.extend_from_slice(&[0xff, 0x80, 0x01]);
        if varint::decode(&with_suffix) != Ok((n, enc.len())) {
          rep.violation(
            "C26/roundtrip/suffix-changes-result",
            format!("n={n} with suffix decodes to {:?}", varint::decode(&with_suffix)),
            json!({"replay": replay, "n": n.to_string()}),
          );
        }
      }
    }
  }
}

pub fn hex(b: &[u8]) -> String {
  b.iter().map(|x| format!("{x:02x}")).collect()
}

fn gen_bytes(rng: &mut Rng) -> Vec<u8> {
  let len = match rng.below(10) {
    0..=2 => rng.usize(0, 6),
    3..=7 => rng.usize(17, 21),
    _ => rng.usize(0, 40),
  };
  let density = rng.below(4); // how likely the continuation bit is
  let mut v = rng.bytes(len);
  for b in v.iter_mut() {
    match density {
      0 => {}
      1 => *b |= 0x80,
      2 => {
        if rng.chance(9, 10) {
          *b |= 0x80
        }
      }
      _ => {
        if rng.chance(1, 2) {
          *b &= 0x83
        }
        if rng.chance(7, 10) {
          *b |= 0x80
        }
      }
    }
  }
  v
}

/// `scale` = 1 for the checked quick tier; Miri uses a much smaller budget.
pub fn run(ctx: &Ctx, rep: &mut Report) {
  let miri = cfg!(miri);
  // deterministic part (shard 0 only): structured values and the small domain
  if ctx.deterministic_part() {
    let replay = ctx.replay_info(u64::MAX);
    for k in 0..128u32 {
      for d in [-1i32, 0, 1] {
        let n = (1u128 << k).wrapping_add_signed(d.into());
        check_roundtrip(n, rep, &replay);
      }
    }
    for n in [0u128, u128::MAX, u128::MAX - 1, u64::MAX as u128, u64::MAX as u128 + 1] {
      check_roundtrip(n, rep, &replay);
    }
    // all byte strings of length <= 2 (exhaustive on the small domain)
    if !miri {
      check_decode(&[], rep, &replay);
      for a in 0..=255u8 {
        check_decode(&[a], rep, &replay);
        for b in 0..=255u8 {
          check_decode(&[a, b], rep, &replay);
        }
      }
      rep.count("exhaustive_len_le_2");
    }
    // the 19-byte boundary, every payload of the last byte
    for last in 0..=255u8 {
      let mut v = vec![0x80u8; 18];
      v.push(last);
      check_decode(&v, rep, &replay);
      let mut v = vec![0xffu8; 18];
      v.push(last);
      check_decode(&v, rep, &replay);
      v.push(0);
      check_decode(&v, rep, &replay);
    }
  }
  let max = if miri { 300 } else { u64::MAX };
  for case in ctx.cases(max) {
    let mut rng = ctx.rng(case);
    let replay = ctx.replay_info(case);
    for _ in 0..(if miri { 1 } else { 256 }) {
      let n = match rng.below(3) {
        0 => rng.next_u128(),
        1 => rng.log_u128(),
        _ => rng.edge_u128(),
      };
      check_roundtrip(n, rep, &replay);
      let b = gen_bytes(&mut rng);
      if rep.want_sample() {
        rep.sample(json!({"n": n.to_string(), "encoded": hex(&varint::encode(n)), "bytes": hex(&b), "decode": format!("{:?}", varint::decode(&b))}));
      }
      check_decode(&b, rep, &replay);
    }
  }
}
