//! Audits of the rune properties C08–C11 (and the per-transaction event
//! comparison used by C09) against the real index at quiescent points.

use super::chain::Run;
use crate::{model::runes::RefRuneEntry, report::Report};
use bitcoin::OutPoint;
use ord::index::event::Event;
use ordinals::{Rune, RuneId};
use std::collections::{BTreeMap, BTreeSet};

fn rid(id: &RuneId) -> (u64, u32) {
  (id.block, id.tx)
}

/// C08 — supply conservation and balance hygiene (model-free; RefSats only
/// for "unspent and not OP_RETURN").
pub fn audit_c08(run: &Run, rep: &mut Report) {
  let h = run.model.height();
  let (entries, balances) = match (run.index.runes(), run.index.get_rune_balances()) {
    (Ok(e), Ok(b)) => (e, b),
    (e, b) => {
      rep.inconclusive(format!("rune tables unreadable: {:?} {:?}", e.err(), b.err()));
      return;
    }
  };
  let by_id: BTreeMap<(u64, u32), &ord::RuneEntry> = entries.iter().map(|(id, e)| (rid(id), e)).collect();
  let mut held: BTreeMap<(u64, u32), u128> = BTreeMap::new();
  for (outpoint, list) in &balances {
    rep.eval();
    let mut seen = BTreeSet::new();
    if list.is_empty() {
      rep.violation("C08/empty-balance-list", format!("height {h}: {outpoint} has an empty balance list"), run.replay.clone());
    }
    for (id, amount) in list {
      if *amount == 0 {
        rep.violation("C08/zero-balance", format!("height {h}: {outpoint} holds a zero balance of {id}"), run.replay.clone());
      }
      if !by_id.contains_key(&rid(id)) {
        rep.violation("C08/balance-of-unknown-rune", format!("height {h}: {outpoint} holds {amount} of {id}, which has no entry"), run.replay.clone());
      }
      if !seen.insert(rid(id)) {
        rep.violation("C08/duplicate-id-in-balance-list", format!("height {h}: {outpoint} lists {id} twice"), run.replay.clone());
      }
      match held.entry(rid(id)).or_default().checked_add(*amount) {
        Some(t) => {
          held.insert(rid(id), t);
        }
        None => rep.violation("C08/balances-overflow", format!("height {h}: balances of {id} exceed u128"), run.replay.clone()),
      }
    }
    match run.model.sats.utxos.get(outpoint) {
      None => rep.violation("C08/balance-on-spent-output", format!("height {h}: {outpoint} holds runes {list:?} but is spent or unknown"), run.replay.clone()),
      Some(o) if o.script.is_op_return() => rep.violation("C08/balance-on-op-return", format!("height {h}: OP_RETURN output {outpoint} holds runes {list:?}"), run.replay.clone()),
      _ => {}
    }
  }
  for (id, e) in &entries {
    rep.eval();
    let amount = e.terms.and_then(|t| t.amount).unwrap_or(0);
    let minted = e.mints.checked_mul(amount);
    let supply = minted.and_then(|m| m.checked_add(e.premine));
    let outstanding = held.get(&rid(id)).copied().unwrap_or(0).checked_add(e.burned);
    match (supply, outstanding) {
      (Some(s), Some(o)) if s == o => rep.count("conserved"),
      _ => rep.violation(
        "C08/supply-not-conserved",
        format!("height {h}: rune {id} {}: balances {} + burned {} != premine {} + mints {} x amount {amount}", e.spaced_rune, held.get(&rid(id)).copied().unwrap_or(0), e.burned, e.premine, e.mints),
        run.replay.clone(),
      ),
    }
    if e.burned > 0 {
      rep.count("runes_with_burns");
    }
    if e.mints > 0 {
      rep.count("runes_with_mints");
    }
  }
  rep.add("balance_outputs_checked", balances.len() as u64);
  rep.count("audits");
}

/// C09 — per-outpoint balances and burned totals equal the reference.
pub fn audit_c09(run: &Run, rep: &mut Report) {
  let h = run.model.height();
  let (entries, balances) = match (run.index.runes(), run.index.get_rune_balances()) {
    (Ok(e), Ok(b)) => (e, b),
    _ => {
      rep.inconclusive("rune tables unreadable");
      return;
    }
  };
  let got: BTreeMap<OutPoint, BTreeMap<(u64, u32), u128>> = balances.iter().map(|(op, l)| (*op, l.iter().map(|(id, a)| (rid(id), *a)).collect())).collect();
  rep.eval();
  if got != run.model.runes.balances {
    let mut diffs = Vec::new();
    for (op, b) in &run.model.runes.balances {
      if got.get(op) != Some(b) {
        diffs.push(format!("{op}: index {:?}, reference {b:?}", got.get(op)));
      }
    }
    for (op, b) in &got {
      if !run.model.runes.balances.contains_key(op) {
        diffs.push(format!("{op}: index {b:?}, reference nothing"));
      }
    }
    diffs.truncate(4);
    rep.violation("C09/balances-differ", format!("height {h}: {}", diffs.join("; ")), run.replay.clone());
  } else {
    rep.count("balance_maps_equal");
  }
  for (id, e) in &entries {
    rep.eval();
    match run.model.runes.entries.get(&rid(id)) {
      Some(m) if m.burned == e.burned => {}
      m => rep.violation("C09/burned-differs", format!("height {h}: rune {id}: index burned {}, reference {:?}", e.burned, m.map(|m| m.burned)), run.replay.clone()),
    }
  }
  // the public per-output view on a sample
  for (op, b) in run.model.runes.balances.iter().take(10) {
    rep.eval();
    match run.index.get_rune_balances_for_output(*op) {
      Ok(Some(map)) => {
        // per rune, not summed: one output may hold several runes whose
        // amounts add up to more than u128::MAX
        let names: BTreeMap<(u64, u32), ordinals::SpacedRune> = entries.iter().map(|(id, e)| (rid(id), e.spaced_rune)).collect();
        let same = map.len() == b.len() && b.iter().all(|(id, amount)| names.get(id).and_then(|n| map.get(n)).map(|p| p.amount) == Some(*amount));
        if !same {
          rep.violation("C09/output-balance-api", format!("height {h}: get_rune_balances_for_output({op}) = {map:?}, reference {b:?}"), run.replay.clone());
        }
      }
      other => rep.violation("C09/output-balance-api", format!("height {h}: get_rune_balances_for_output({op}) = {other:?}"), run.replay.clone()),
    }
  }
  rep.add("balance_outputs_compared", run.model.runes.balances.len() as u64);
  rep.count("audits");
}

/// C09 (events): the rune events of each transaction equal the reference's
/// per-transaction allocation, so compensating errors inside one block show.
pub fn compare_rune_events(run: &Run, events: &[Event], from_log: usize, rep: &mut Report) {
  #[derive(Default, Debug, PartialEq, Eq)]
  struct Tx {
    etched: Vec<(u64, u32)>,
    minted: Vec<((u64, u32), u128)>,
    transferred: BTreeSet<(OutPoint, (u64, u32), u128)>,
    burned: BTreeMap<(u64, u32), u128>,
  }
  let mut got: BTreeMap<(u32, bitcoin::Txid), Tx> = BTreeMap::new();
  for ev in events {
    match ev {
      Event::RuneEtched { block_height, rune_id, txid } => got.entry((*block_height, *txid)).or_default().etched.push(rid(rune_id)),
      Event::RuneMinted { block_height, rune_id, txid, amount } => got.entry((*block_height, *txid)).or_default().minted.push((rid(rune_id), *amount)),
      Event::RuneTransferred { block_height, rune_id, txid, amount, outpoint } => {
        got.entry((*block_height, *txid)).or_default().transferred.insert((*outpoint, rid(rune_id), *amount));
      }
      Event::RuneBurned { block_height, rune_id, txid, amount } => {
        *got.entry((*block_height, *txid)).or_default().burned.entry(rid(rune_id)).or_default() += *amount;
      }
      _ => {}
    }
  }
  let mut want: BTreeMap<(u32, bitcoin::Txid), Tx> = BTreeMap::new();
  for l in &run.model.runes.log[from_log..] {
    let t = Tx {
      etched: l.etched.into_iter().collect(),
      minted: l.minted.into_iter().collect(),
      transferred: l.transferred.iter().copied().collect(),
      burned: l.burned.iter().copied().collect(),
    };
    if t != Tx::default() {
      want.insert((l.height, l.txid.unwrap()), t);
    }
  }
  rep.eval();
  if got != want {
    let mut diffs = Vec::new();
    for (k, w) in &want {
      if got.get(k) != Some(w) {
        diffs.push(format!("tx {} at {}: events {:?}, reference {w:?}", k.1, k.0, got.get(k)));
      }
    }
    for (k, g) in &got {
      if !want.contains_key(k) {
        diffs.push(format!("tx {} at {}: events {g:?}, reference nothing", k.1, k.0));
      }
    }
    diffs.truncate(3);
    rep.violation("C09/per-transaction-events-differ", diffs.join("; "), run.replay.clone());
  } else {
    rep.add("transactions_with_rune_events_compared", want.len() as u64);
  }
}

/// C10 — mint terms enforced.
pub fn audit_c10(run: &Run, rep: &mut Report) {
  let h = run.model.height();
  let Ok(entries) = run.index.runes() else {
    rep.inconclusive("rune entries unreadable");
    return;
  };
  for (id, e) in &entries {
    rep.eval();
    let cap = e.terms.and_then(|t| t.cap).unwrap_or(0);
    if e.mints > cap {
      rep.violation("C10/mints-exceed-cap", format!("height {h}: rune {id} has {} mints, cap {cap}", e.mints), run.replay.clone());
    }
    if e.terms.is_none() && e.mints > 0 {
      rep.violation("C10/mint-without-terms", format!("height {h}: rune {id} has {} mints but no terms", e.mints), run.replay.clone());
    }
    let Some(m) = run.model.runes.entries.get(&rid(id)) else { continue };
    if m.mints != e.mints {
      rep.violation(
        "C10/mint-count-differs",
        format!("height {h}: rune {id}: index counts {} mints, the mint rule gives {} (terms {:?}, etched at {})", e.mints, m.mints, e.terms, e.block),
        run.replay.clone(),
      );
    } else if e.mints > 0 {
      rep.count("runes_with_mints_compared");
      if e.mints == cap {
        rep.count("runes_at_cap");
      }
    }
    // is the mint open for the next block? (what /rune/<name> reports)
    let next = u64::from(h);
    let want = m.mintable(next).is_some();
    if e.mintable(next).is_ok() != want {
      rep.violation("C10/mintable-differs", format!("height {h}: rune {id}: mintable({next}) = {:?}, reference {want} (start {:?} end {:?} mints {} cap {:?})", e.mintable(next), m.start(), m.end(), m.mints, m.cap), run.replay.clone());
    }
    if want {
      rep.count("open_mints_seen");
    }
  }
  rep.count("audits");
}

fn describe(m: &RefRuneEntry) -> String {
  format!("{}:{} name {} number {} cenotaph {}", m.id.0, m.id.1, Rune(m.rune), m.number, m.cenotaph)
}

/// C11 — only valid etchings create runes; names, ids and numbers unique and
/// in one-to-one correspondence.
pub fn audit_c11(run: &Run, statistics: &[(u64, u64)], rep: &mut Report) {
  let h = run.model.height();
  let Ok(entries) = run.index.runes() else {
    rep.inconclusive("rune entries unreadable");
    return;
  };
  rep.eval();
  let got: BTreeMap<(u64, u32), (u128, u64)> = entries.iter().map(|(id, e)| (rid(id), (e.spaced_rune.rune.0, e.number))).collect();
  let want: BTreeMap<(u64, u32), (u128, u64)> = run.model.runes.entries.iter().map(|(id, m)| (*id, (m.rune, m.number))).collect();
  if got != want {
    let mut diffs = Vec::new();
    for (id, m) in &run.model.runes.entries {
      if got.get(id) != Some(&(m.rune, m.number)) {
        diffs.push(format!("reference has {} but index has {:?}", describe(m), got.get(id)));
      }
    }
    for (id, g) in &got {
      if !want.contains_key(id) {
        diffs.push(format!("index has rune {}:{} name {} number {} that no valid etching created", id.0, id.1, Rune(g.0), g.1));
      }
    }
    diffs.truncate(3);
    let sig = if got.len() > want.len() { "C11/rune-from-invalid-etching" } else if got.len() < want.len() { "C11/valid-etching-ignored" } else { "C11/rune-set-differs" };
    rep.violation(sig, format!("height {h}: {}", diffs.join("; ")), run.replay.clone());
  }
  // full entries
  for (id, e) in &entries {
    rep.eval();
    let Some(m) = run.model.runes.entries.get(&rid(id)) else { continue };
    let terms_equal = match e.terms {
      None => !m.has_terms,
      Some(t) => m.has_terms && t.cap == m.cap && t.amount == m.amount && t.height == m.height && t.offset == m.offset,
    };
    if e.block != m.id.0
      || e.etching != m.etching
      || e.divisibility != m.divisibility
      || e.premine != m.premine
      || e.spaced_rune.spacers != m.spacers
      || e.symbol != m.symbol
      || e.turbo != m.turbo
      || e.timestamp != m.timestamp
      || !terms_equal
    {
      rep.violation("C11/entry-fields-differ", format!("height {h}: rune {id}: index {e:?}, reference {m:?}"), run.replay.clone());
    }
    if m.cenotaph {
      rep.count("cenotaph_etchings_seen");
    }
    if m.rune >= Rune::RESERVED {
      rep.count("reserved_names_seen");
    }
  }
  // numbers dense in etching order
  for (i, (id, e)) in entries.iter().enumerate() {
    if e.number != i as u64 {
      rep.violation("C11/numbers-not-dense", format!("height {h}: rune {id} is entry {i} in id order but has number {}", e.number), run.replay.clone());
    }
  }
  // the lookup tables are bijective with the entries
  for (id, e) in entries.iter().rev().take(12) {
    rep.eval();
    let rune = e.spaced_rune.rune;
    match run.index.rune(rune) {
      Ok(Some((rid2, e2, _))) if rid2 == *id && e2 == *e => {}
      other => rep.violation("C11/name-lookup", format!("height {h}: rune({rune}) = {:?}, expected id {id}", other.map(|o| o.map(|x| x.0))), run.replay.clone()),
    }
    match run.index.get_rune_by_id(*id) {
      Ok(Some(r)) if r == rune => {}
      other => rep.violation("C11/id-lookup", format!("height {h}: get_rune_by_id({id}) = {other:?}, expected {rune}"), run.replay.clone()),
    }
    match run.index.get_rune_by_number(e.number as usize) {
      Ok(Some(r)) if r == rune => {}
      other => rep.violation("C11/number-lookup", format!("height {h}: get_rune_by_number({}) = {other:?}, expected {rune}", e.number), run.replay.clone()),
    }
    match run.index.get_etching(e.etching) {
      Ok(Some(sr)) if sr == e.spaced_rune => {}
      other => rep.violation("C11/etching-lookup", format!("height {h}: get_etching({}) = {other:?}, expected {}", e.etching, e.spaced_rune), run.replay.clone()),
    }
  }
  // names of rejected etchings must not resolve
  rep.eval();
  let stat = |k: u64| statistics.iter().find(|(key, _)| *key == k).map(|(_, v)| *v).unwrap_or(0);
  if stat(13) != entries.len() as u64 || stat(12) != run.model.runes.reserved {
    rep.violation(
      "C11/statistics-differ",
      format!("height {h}: statistic runes {} (entries {}), reserved {} (reference {})", stat(13), entries.len(), stat(12), run.model.runes.reserved),
      run.replay.clone(),
    );
  }
  rep.add("rune_entries_compared", entries.len() as u64);
  rep.count("audits");
}
