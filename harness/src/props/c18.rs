//! C18 — explorer JSON and recursive endpoints agree with the index.
//!
//! A generated chain (transfers, reveals, rune transactions, plus "bulk"
//! reveals that put hundreds of inscriptions on one sat / under one parent /
//! into one block to cross the page size) is indexed by the real `Index`; the
//! real server is started in-process on the same `Arc<Index>`; every object of
//! the state is requested over HTTP and compared with the stored tables read
//! through hook H2 and with the chain's transactions.

use crate::{
  blockgen::{Gen, GenCfg},
  ctx::Ctx,
  explorer::Explorer,
  gen_insc::{id_value, push},
  idx::IndexCfg,
  model::Model,
  node::Node,
  report::Report,
  rng::Rng,
};
use bitcoin::{Address, Amount, Network, OutPoint, ScriptBuf, Transaction, TxOut, Txid, Witness};
use ord::{InscriptionId, ParsedEnvelope, api, index::verif::InscriptionEntry};
use ordinals::{Charm, Pile, SatPoint, SpacedRune};
use serde_json::json;
use std::collections::{BTreeMap, BTreeSet};

const PAGE: usize = 100;

pub fn bulk_reveal(rng: &mut Rng, bgen: &Gen, model: &Model, spent: &BTreeSet<OutPoint>, k: usize, height: u32) -> Option<Transaction> {
  // an unspent, mature output that holds an inscription: it becomes the parent
  let avail = bgen.available(model, height);
  let cands: Vec<_> = avail.iter().filter(|a| !spent.contains(&a.outpoint) && a.value > 0 && !model.inscriptions_in(&a.outpoint).is_empty()).collect();
  let a = if cands.is_empty() { return None } else { *rng.pick(&cands) };
  let parent = model.inscriptions_in(&a.outpoint)[0];
  let mut script = vec![0x20];
  script.extend([7u8; 32]);
  script.push(0xac);
  for i in 0..k {
    script.extend([0x00, 0x63]);
    push(&mut script, b"ord");
    push(&mut script, &[3]);
    push(&mut script, &id_value(&parent));
    push(&mut script, &[1]);
    push(&mut script, b"text/plain;charset=utf-8");
    script.push(0x00);
    push(&mut script, format!("bulk {i}").as_bytes());
    script.push(0x68);
  }
  let mut w = Witness::new();
  w.push(script);
  w.push([0xc0u8; 33]);
  let out = TxOut { value: Amount::from_sat(a.value), script_pubkey: bgen.scripts[rng.usize(0, 3)].clone() };
  Some(bgen.finish(vec![(*a).clone()], vec![out], vec![w]))
}

#[derive(serde::Deserialize)]
struct ServedRune {
  entry: ord::RuneEntry,
  id: ordinals::RuneId,
}

struct State {
  entries: Vec<InscriptionEntry>,
  satpoint: BTreeMap<u32, SatPoint>,
  seq_of: BTreeMap<InscriptionId, u32>,
  children: BTreeMap<u32, Vec<u32>>,
  by_sat: BTreeMap<u64, Vec<u32>>,
  txs: BTreeMap<Txid, Transaction>,
  network: Network,
}

impl State {
  fn id(&self, seq: u32) -> InscriptionId {
    self.entries[seq as usize].id
  }

  fn txout(&self, outpoint: &OutPoint) -> Option<&TxOut> {
    self.txs.get(&outpoint.txid).and_then(|t| t.output.get(outpoint.vout as usize))
  }

  fn address(&self, script: &ScriptBuf) -> Option<String> {
    Address::from_script(script, self.network).ok().map(|a| a.to_string())
  }
}

/// Within one output the order of the listing is not part of the statement
/// ("lists exactly the inscriptions it holds"): compare as multisets.
fn sorted(v: Option<Vec<InscriptionId>>) -> Option<Vec<InscriptionId>> {
  v.map(|mut v| {
    v.sort();
    v
  })
}

fn mismatch<T: std::fmt::Debug + PartialEq>(bad: &mut Vec<(String, String)>, field: &str, got: &T, want: &T) {
  if got != want {
    let g = format!("{got:?}");
    let w = format!("{want:?}");
    bad.push((field.to_string(), format!("served {} expected {}", &g[..g.len().min(400)], &w[..w.len().min(400)])));
  }
}

/// all pages of a paginated listing: (ids, more) per page
fn pages<T, F: Fn(usize) -> Result<(Vec<T>, bool), String>>(fetch: F, bad: &mut Vec<(String, String)>, what: &str) -> Vec<T> {
  let mut all = Vec::new();
  for page in 0..200 {
    match fetch(page) {
      Err(e) => {
        bad.push((format!("{what}/request"), e));
        break;
      }
      Ok((items, more)) => {
        if items.len() > PAGE {
          bad.push((format!("{what}/page-size"), format!("page {page} has {} items", items.len())));
        }
        if more && items.len() != PAGE {
          bad.push((format!("{what}/more-flag"), format!("page {page} has {} items but says more", items.len())));
        }
        let n = items.len();
        all.extend(items);
        if !more {
          // what a page *beyond* the last one shows is not part of the listing
          // (a client following `more` never asks for it); the newest-first
          // listing repeats its oldest entry there (saturating arithmetic)
          break;
        }
      }
    }
  }
  all
}

fn relative(st: &State, e: &InscriptionEntry) -> api::RelativeInscriptionRecursive {
  let sp = st.satpoint[&e.sequence_number];
  api::RelativeInscriptionRecursive {
    charms: Charm::charms(e.charms),
    fee: e.fee,
    height: e.height,
    id: e.id,
    number: e.inscription_number,
    output: sp.outpoint,
    sat: e.sat,
    satpoint: sp,
    timestamp: i64::from(e.timestamp),
  }
}

fn check_inscription(ex: &Explorer, st: &State, e: &InscriptionEntry, rep: &mut Report) -> Vec<(String, String)> {
  let mut bad = Vec::new();
  let seq = e.sequence_number;
  let sp = st.satpoint[&seq];
  let special = sp.outpoint == ord::unbound_outpoint() || sp.outpoint == OutPoint::null();
  let out = if special { None } else { st.txout(&sp.outpoint) };
  let envelope = st.txs.get(&e.id.txid).and_then(|tx| ParsedEnvelope::from_transaction(tx).into_iter().nth(e.id.index as usize)).map(|e| e.payload);
  let Some(envelope) = envelope else {
    bad.push(("harness/envelope".into(), format!("no envelope {} in the chain", e.id)));
    return bad;
  };
  let kids = st.children.get(&seq).cloned().unwrap_or_default();
  if sp.outpoint == OutPoint::null() {
    rep.count("inscriptions_lost");
  } else if sp.outpoint == ord::unbound_outpoint() {
    rep.count("inscriptions_unbound");
  }
  if Charm::Burned.is_set(e.charms) {
    rep.count("inscriptions_burned");
  }

  // /inscription/<id>
  rep.eval();
  match ex.get_json(&format!("/inscription/{}", e.id)) {
    Err(err) => bad.push(("inscription/request".into(), err)),
    Ok(r) if r.status != 200 => bad.push(("inscription/status".into(), format!("{} for an indexed inscription at {sp}: {}", r.status, String::from_utf8_lossy(&r.body[..r.body.len().min(200)])))),
    Ok(r) => match r.json::<api::Inscription>() {
      Err(err) => bad.push(("inscription/json".into(), err)),
      Ok(j) => {
        let mut charms = e.charms;
        if sp.outpoint == OutPoint::null() {
          Charm::Lost.set(&mut charms);
        }
        mismatch(&mut bad, "inscription/id", &j.id, &e.id);
        mismatch(&mut bad, "inscription/number", &j.number, &e.inscription_number);
        mismatch(&mut bad, "inscription/height", &j.height, &e.height);
        mismatch(&mut bad, "inscription/fee", &j.fee, &e.fee);
        mismatch(&mut bad, "inscription/sat", &j.sat, &e.sat);
        mismatch(&mut bad, "inscription/timestamp", &j.timestamp, &i64::from(e.timestamp));
        mismatch(&mut bad, "inscription/satpoint", &j.satpoint, &sp);
        mismatch(&mut bad, "inscription/charms", &j.charms, &Charm::charms(charms));
        mismatch(&mut bad, "inscription/parents", &j.parents, &e.parents.iter().take(4).map(|p| st.id(*p)).collect());
        mismatch(&mut bad, "inscription/children", &j.children, &kids.iter().take(4).map(|c| st.id(*c)).collect());
        mismatch(&mut bad, "inscription/child_count", &j.child_count, &(kids.len() as u64));
        mismatch(&mut bad, "inscription/previous", &j.previous, &seq.checked_sub(1).map(|s| st.id(s)));
        mismatch(&mut bad, "inscription/next", &j.next, &st.entries.get(seq as usize + 1).map(|n| n.id));
        mismatch(&mut bad, "inscription/value", &j.value, &out.map(|o| o.value.to_sat()));
        mismatch(&mut bad, "inscription/address", &j.address, &out.and_then(|o| st.address(&o.script_pubkey)));
        mismatch(&mut bad, "inscription/content_type", &j.content_type, &envelope.content_type().map(str::to_string));
        mismatch(&mut bad, "inscription/content_length", &j.content_length, &envelope.content_length());
        mismatch(&mut bad, "inscription/metaprotocol", &j.metaprotocol, &envelope.metaprotocol().map(str::to_string));
        if bad.is_empty() {
          rep.count("inscription_json_ok");
        }
      }
    },
  }

  // /r/inscription/<id>
  rep.eval();
  match ex.get(&format!("/r/inscription/{}", e.id), &[]) {
    Err(err) => bad.push(("r-inscription/request".into(), err)),
    Ok(r) if r.status != 200 => bad.push((
      if sp.outpoint == OutPoint::null() { "r-inscription/status-lost".into() } else { "r-inscription/status".into() },
      format!("{} for an indexed inscription at {sp}: {}", r.status, String::from_utf8_lossy(&r.body[..r.body.len().min(200)])),
    )),
    Ok(r) => match r.json::<api::InscriptionRecursive>() {
      Err(err) => bad.push(("r-inscription/json".into(), err)),
      Ok(j) => {
        let n0 = bad.len();
        mismatch(&mut bad, "r-inscription/id", &j.id, &e.id);
        mismatch(&mut bad, "r-inscription/number", &j.number, &e.inscription_number);
        mismatch(&mut bad, "r-inscription/height", &j.height, &e.height);
        mismatch(&mut bad, "r-inscription/fee", &j.fee, &e.fee);
        mismatch(&mut bad, "r-inscription/sat", &j.sat, &e.sat);
        mismatch(&mut bad, "r-inscription/timestamp", &j.timestamp, &i64::from(e.timestamp));
        mismatch(&mut bad, "r-inscription/satpoint", &j.satpoint, &sp);
        mismatch(&mut bad, "r-inscription/output", &j.output, &sp.outpoint);
        // stored charms; whether `lost` is added is route-specific and not judged
        let mut served = j.charms.clone();
        served.retain(|c| *c != Charm::Lost);
        let mut stored = Charm::charms(e.charms);
        stored.retain(|c| *c != Charm::Lost);
        mismatch(&mut bad, "r-inscription/charms", &served, &stored);
        mismatch(&mut bad, "r-inscription/value", &j.value, &out.map(|o| o.value.to_sat()));
        mismatch(&mut bad, "r-inscription/address", &j.address, &out.and_then(|o| st.address(&o.script_pubkey)));
        mismatch(&mut bad, "r-inscription/delegate", &j.delegate, &envelope.delegate());
        mismatch(&mut bad, "r-inscription/content_type", &j.content_type, &envelope.content_type().map(str::to_string));
        mismatch(&mut bad, "r-inscription/content_length", &j.content_length, &envelope.content_length());
        if bad.len() == n0 {
          rep.count("r_inscription_json_ok");
        }
      }
    },
  }
  bad
}

fn ids_page(ex: &Explorer, path: String) -> Result<(Vec<InscriptionId>, bool), String> {
  let r = ex.get_json(&path)?;
  if r.status != 200 {
    return Err(format!("{path}: status {}", r.status));
  }
  // Children{ids,more,page} / Inscriptions{ids,more,page_index} / SatInscriptions{ids,more,page}
  let v: serde_json::Value = r.json()?;
  let ids: Vec<InscriptionId> = serde_json::from_value(v["ids"].clone()).map_err(|e| e.to_string())?;
  let more = v["more"].as_bool().ok_or("no more flag")?;
  Ok((ids, more))
}

fn check_listings(ex: &Explorer, st: &State, rep: &mut Report, rng: &mut Rng, sat_index: bool) -> Vec<(String, String)> {
  let mut bad = Vec::new();
  // by block
  let mut by_height: BTreeMap<u32, Vec<InscriptionId>> = BTreeMap::new();
  for e in &st.entries {
    by_height.entry(e.height).or_default().push(e.id);
  }
  let mut heights: Vec<u32> = by_height.keys().copied().collect();
  heights.sort_by_key(|h| std::cmp::Reverse(by_height[h].len()));
  let mut chosen: Vec<u32> = heights.iter().take(4).copied().collect();
  for _ in 0..8 {
    if !heights.is_empty() {
      chosen.push(*rng.pick(&heights));
    }
  }
  chosen.push(0);
  if let Some(first) = heights.iter().min() {
    // the lowest heights that hold inscriptions (the first indexed block when
    // the activation height was moved)
    chosen.extend([*first, first + 1]);
    rep.count("first_inscribed_block_listed");
  }
  for h in chosen {
    rep.eval();
    let got = pages(|p| ids_page(ex, if p == 0 && h % 2 == 0 { format!("/inscriptions/block/{h}") } else { format!("/inscriptions/block/{h}/{p}") }), &mut bad, "inscriptions-block");
    let want = by_height.get(&h).cloned().unwrap_or_default();
    if got == want {
      rep.count("block_listings_ok");
      if want.len() > PAGE {
        rep.count("block_listings_over_one_page_ok");
      }
    } else {
      bad.push(("inscriptions-block/ids".into(), format!("height {h}: served {} ids, stored {} (first difference at {:?})", got.len(), want.len(), got.iter().zip(want.iter()).position(|(a, b)| a != b))));
    }
  }
  // by parent
  let mut parents: Vec<u32> = st.children.keys().copied().collect();
  parents.sort_by_key(|p| std::cmp::Reverse(st.children[p].len()));
  for p in parents.iter().take(25) {
    rep.eval();
    let pid = st.id(*p);
    let want: Vec<InscriptionId> = st.children[p].iter().map(|c| st.id(*c)).collect();
    let got = pages(|pg| ids_page(ex, if pg == 0 { format!("/r/children/{pid}") } else { format!("/r/children/{pid}/{pg}") }), &mut bad, "r-children");
    if got != want {
      bad.push(("r-children/ids".into(), format!("parent {pid}: served {} ids, stored {}", got.len(), want.len())));
      continue;
    }
    let got = pages(
      |pg| {
        let r = ex.get_json(&if pg == 0 { format!("/r/children/{pid}/inscriptions") } else { format!("/r/children/{pid}/inscriptions/{pg}") })?;
        let j: api::ChildInscriptions = r.json()?;
        Ok((j.children, j.more))
      },
      &mut bad,
      "r-children-inscriptions",
    );
    let want_rel: Vec<api::RelativeInscriptionRecursive> = st.children[p].iter().map(|c| relative(st, &st.entries[*c as usize])).collect();
    if got == want_rel {
      rep.count("children_listings_ok");
      if want.len() > PAGE {
        rep.count("children_listings_over_one_page_ok");
      }
    } else {
      bad.push(("r-children-inscriptions/items".into(), format!("parent {pid}: {} served, {} stored; first difference {:?}", got.len(), want_rel.len(), got.iter().zip(want_rel.iter()).find(|(a, b)| a != b))));
    }
  }
  // by child
  let mut with_parents: Vec<&InscriptionEntry> = st.entries.iter().filter(|e| !e.parents.is_empty()).collect();
  rng.shuffle(&mut with_parents);
  with_parents.sort_by_key(|e| std::cmp::Reverse(e.parents.len().min(3)));
  for e in with_parents.iter().take(25) {
    rep.eval();
    let want: Vec<InscriptionId> = e.parents.iter().map(|p| st.id(*p)).collect();
    let got = pages(|pg| ids_page(ex, if pg == 0 { format!("/r/parents/{}", e.id) } else { format!("/r/parents/{}/{pg}", e.id) }), &mut bad, "r-parents");
    if got != want {
      bad.push(("r-parents/ids".into(), format!("child {}: served {:?}, stored {:?}", e.id, got, want)));
      continue;
    }
    let got = pages(
      |pg| {
        let r = ex.get_json(&if pg == 0 { format!("/r/parents/{}/inscriptions", e.id) } else { format!("/r/parents/{}/inscriptions/{pg}", e.id) })?;
        let j: api::ParentInscriptions = r.json()?;
        Ok((j.parents, j.more))
      },
      &mut bad,
      "r-parents-inscriptions",
    );
    let want_rel: Vec<_> = e.parents.iter().map(|p| relative(st, &st.entries[*p as usize])).collect();
    if got == want_rel {
      rep.count("parent_listings_ok");
    } else {
      bad.push(("r-parents-inscriptions/items".into(), format!("child {}: {} served, {} stored", e.id, got.len(), want_rel.len())));
    }
  }
  // by sat
  if sat_index {
    let mut sats: Vec<u64> = st.by_sat.keys().copied().collect();
    sats.sort_by_key(|s| std::cmp::Reverse(st.by_sat[s].len()));
    let mut chosen: Vec<u64> = sats.iter().take(6).copied().collect();
    for _ in 0..10 {
      if !sats.is_empty() {
        chosen.push(*rng.pick(&sats));
      }
    }
    for sat in chosen {
      rep.eval();
      let want: Vec<InscriptionId> = st.by_sat[&sat].iter().map(|s| st.id(*s)).collect();
      let got = pages(|pg| ids_page(ex, if pg == 0 { format!("/r/sat/{sat}") } else { format!("/r/sat/{sat}/{pg}") }), &mut bad, "r-sat");
      if got != want {
        bad.push(("r-sat/ids".into(), format!("sat {sat}: served {} ids, stored {}", got.len(), want.len())));
        continue;
      }
      let n = want.len() as isize;
      let mut ok = true;
      for i in [0isize, 1, n - 1, n, n + 3, -1, -2, -n, -n - 1, -n - 5] {
        let expect = if i >= 0 { want.get(i as usize).copied() } else { (n + i >= 0).then(|| want[(n + i) as usize]) };
        match ex.get(&format!("/r/sat/{sat}/at/{i}"), &[]) {
          Err(e) => {
            bad.push(("r-sat-at/request".into(), e));
            ok = false;
          }
          Ok(r) => match r.json::<api::SatInscription>() {
            Err(e) => {
              bad.push(("r-sat-at/json".into(), format!("status {}: {e}", r.status)));
              ok = false;
            }
            Ok(j) => {
              if j.id != expect {
                bad.push((if i < 0 { "r-sat-at/negative-index".into() } else { "r-sat-at/index".into() }, format!("sat {sat} index {i} of {n}: served {:?}, stored {:?}", j.id, expect)));
                ok = false;
              }
            }
          },
        }
      }
      // /sat/<n>
      match ex.get_json(&format!("/sat/{sat}")) {
        Err(e) => bad.push(("sat/request".into(), e)),
        Ok(r) if r.status != 200 => {
          let first = st.satpoint[&st.by_sat[&sat][0]];
          bad.push((if first.outpoint == OutPoint::null() { "sat/status-lost".into() } else { "sat/status".into() }, format!("{} for sat {sat} whose first inscription is at {first}: {}", r.status, String::from_utf8_lossy(&r.body[..r.body.len().min(200)]))));
          ok = false;
        }
        Ok(r) => match r.json::<api::Sat>() {
          Err(e) => bad.push(("sat/json".into(), e)),
          Ok(j) => {
            let n0 = bad.len();
            mismatch(&mut bad, "sat/inscriptions", &j.inscriptions, &want);
            mismatch(&mut bad, "sat/number", &j.number, &sat);
            if let Ok(Some(found)) = ex.index.find(ordinals::Sat(sat)) {
              mismatch(&mut bad, "sat/satpoint", &j.satpoint, &Some(found));
            }
            ok &= bad.len() == n0;
          }
        },
      }
      if ok {
        rep.count("sat_listings_ok");
        if want.len() > PAGE {
          rep.count("sat_listings_over_one_page_ok");
        }
        if want.len() > 1 {
          rep.count("sat_listings_with_reinscriptions_ok");
        }
      }
    }
  }
  bad
}

fn check_outputs(ex: &Explorer, st: &State, rep: &mut Report, rng: &mut Rng, cfg: &IndexCfg) -> Vec<(String, String)> {
  let mut bad = Vec::new();
  let utxos = match ex.index.verif_utxos() {
    Ok(u) => u,
    Err(e) => {
      bad.push(("harness/utxos".into(), e.to_string()));
      return bad;
    }
  };
  let runes: BTreeMap<ordinals::RuneId, ord::RuneEntry> = ex.index.runes().unwrap_or_default().into_iter().collect();
  let balances: BTreeMap<OutPoint, Vec<(ordinals::RuneId, u128)>> = if cfg.runes { ex.index.get_rune_balances().unwrap_or_default().into_iter().collect() } else { BTreeMap::new() };
  let mut interesting: Vec<&ord::index::verif::VerifUtxo> = utxos.iter().filter(|u| u.outpoint != OutPoint::null() && u.outpoint != ord::unbound_outpoint()).collect();
  rng.shuffle(&mut interesting);
  interesting.sort_by_key(|u| std::cmp::Reverse(u.inscriptions.as_ref().map(|i| i.len().min(3)).unwrap_or(0) + usize::from(balances.contains_key(&u.outpoint))));
  for u in interesting.iter().take(120) {
    rep.eval();
    let want_ids: Option<Vec<InscriptionId>> = u.inscriptions.as_ref().map(|v| v.iter().map(|(s, _)| st.id(*s)).collect());
    let want_runes: Option<BTreeMap<String, Pile>> = cfg.runes.then(|| {
      balances
        .get(&u.outpoint)
        .map(|b| b.iter().map(|(id, amount)| (runes[id].spaced_rune.to_string(), Pile { amount: *amount, divisibility: runes[id].divisibility, symbol: runes[id].symbol })).collect())
        .unwrap_or_default()
    });
    let by_name = |m: &Option<BTreeMap<SpacedRune, Pile>>| m.as_ref().map(|m| m.iter().map(|(k, v)| (k.to_string(), *v)).collect::<BTreeMap<String, Pile>>());
    let Some(txout) = st.txout(&u.outpoint) else {
      bad.push(("harness/txout".into(), format!("{} not in the chain", u.outpoint)));
      continue;
    };
    let n0 = bad.len();
    match ex.get_json(&format!("/output/{}", u.outpoint)) {
      Err(e) => bad.push(("output/request".into(), e)),
      Ok(r) if r.status != 200 => bad.push(("output/status".into(), format!("{} for unspent {}", r.status, u.outpoint))),
      Ok(r) => match r.json::<api::Output>() {
        Err(e) => bad.push(("output/json".into(), e)),
        Ok(j) => {
          mismatch(&mut bad, "output/inscriptions", &sorted(j.inscriptions.clone()), &sorted(want_ids.clone()));
          mismatch(&mut bad, "output/runes", &by_name(&j.runes), &want_runes);
          mismatch(&mut bad, "output/value", &j.value, &txout.value.to_sat());
          mismatch(&mut bad, "output/script_pubkey", &j.script_pubkey, &txout.script_pubkey);
          mismatch(&mut bad, "output/sat_ranges", &j.sat_ranges, &u.sat_ranges);
          mismatch(&mut bad, "output/outpoint", &j.outpoint, &u.outpoint);
          mismatch(&mut bad, "output/address", &j.address.as_ref().map(|a| a.clone().assume_checked().to_string()), &st.address(&txout.script_pubkey));
        }
      },
    }
    match ex.get(&format!("/r/utxo/{}", u.outpoint), &[]) {
      Err(e) => bad.push(("r-utxo/request".into(), e)),
      Ok(r) if r.status != 200 => bad.push(("r-utxo/status".into(), format!("{} for unspent {}", r.status, u.outpoint))),
      Ok(r) => match r.json::<api::UtxoRecursive>() {
        Err(e) => bad.push(("r-utxo/json".into(), e)),
        Ok(j) => {
          mismatch(&mut bad, "r-utxo/inscriptions", &sorted(j.inscriptions.clone()), &sorted(want_ids.clone()));
          mismatch(&mut bad, "r-utxo/runes", &by_name(&j.runes), &want_runes);
          mismatch(&mut bad, "r-utxo/value", &j.value, &txout.value.to_sat());
          mismatch(&mut bad, "r-utxo/sat_ranges", &j.sat_ranges, &u.sat_ranges);
        }
      },
    }
    if bad.len() == n0 {
      rep.count("outputs_ok");
      if want_ids.as_ref().is_some_and(|v| !v.is_empty()) {
        rep.count("outputs_with_inscriptions_ok");
      }
      if want_runes.as_ref().is_some_and(|v| !v.is_empty()) {
        rep.count("outputs_with_runes_ok");
      }
    }
  }
  // POST /outputs with a batch
  let batch: Vec<OutPoint> = interesting.iter().take(30).map(|u| u.outpoint).collect();
  if !batch.is_empty() {
    rep.eval();
    match ex.post_json("/outputs", &serde_json::to_string(&batch).unwrap()) {
      Err(e) => bad.push(("outputs-post/request".into(), e)),
      Ok(r) => match r.json::<Vec<api::Output>>() {
        Err(e) => bad.push(("outputs-post/json".into(), format!("status {}: {e}", r.status))),
        Ok(v) => {
          let got: Vec<(OutPoint, Option<Vec<InscriptionId>>)> = v.iter().map(|o| (o.outpoint, sorted(o.inscriptions.clone()))).collect();
          let want: Vec<(OutPoint, Option<Vec<InscriptionId>>)> = interesting.iter().take(30).map(|u| (u.outpoint, sorted(u.inscriptions.as_ref().map(|v| v.iter().map(|(s, _)| st.id(*s)).collect())))).collect();
          if got == want {
            rep.count("outputs_batch_ok");
          } else {
            bad.push(("outputs-post/items".into(), format!("served {} outputs, asked {}", got.len(), want.len())));
          }
        }
      },
    }
  }
  // addresses
  if cfg.addresses {
    let mut by_script: BTreeMap<Vec<u8>, Vec<&ord::index::verif::VerifUtxo>> = BTreeMap::new();
    for u in &utxos {
      if let Some(s) = &u.script_pubkey {
        by_script.entry(s.clone()).or_default().push(u);
      }
    }
    for (script, outs) in by_script.iter() {
      let script = ScriptBuf::from_bytes(script.clone());
      let Some(addr) = st.address(&script) else { continue };
      rep.eval();
      match ex.get_json(&format!("/address/{addr}")) {
        Err(e) => bad.push(("address/request".into(), e)),
        Ok(r) if r.status != 200 => bad.push(("address/status".into(), format!("{} for {addr}", r.status))),
        Ok(r) => match r.json::<api::AddressInfo>() {
          Err(e) => bad.push(("address/json".into(), e)),
          Ok(j) => {
            let n0 = bad.len();
            let mut want_outputs: Vec<OutPoint> = outs.iter().map(|u| u.outpoint).collect();
            want_outputs.sort();
            mismatch(&mut bad, "address/outputs", &j.outputs, &want_outputs);
            mismatch(&mut bad, "address/sat_balance", &j.sat_balance, &outs.iter().map(|u| u.value).sum());
            if let Some(served) = &j.inscriptions {
              let mut want: Vec<InscriptionId> = Vec::new();
              for o in &want_outputs {
                let u = outs.iter().find(|u| u.outpoint == *o).unwrap();
                want.extend(u.inscriptions.as_ref().map(|v| v.iter().map(|(s, _)| st.id(*s)).collect::<Vec<_>>()).unwrap_or_default());
              }
              let mut served = served.clone();
              served.sort();
              want.sort();
              mismatch(&mut bad, "address/inscriptions", &served, &want);
            }
            if let Some(served) = &j.runes_balances {
              let mut sums: BTreeMap<String, u128> = BTreeMap::new();
              for u in outs.iter() {
                for (id, amount) in balances.get(&u.outpoint).cloned().unwrap_or_default() {
                  *sums.entry(runes[&id].spaced_rune.to_string()).or_default() += amount;
                }
              }
              let served_names: BTreeSet<String> = served.iter().map(|(r, _, _)| r.to_string()).collect();
              mismatch(&mut bad, "address/runes", &served_names, &sums.keys().cloned().collect());
            }
            if bad.len() == n0 {
              rep.count("addresses_ok");
            }
          }
        },
      }
    }
  }
  // runes
  for (id, entry) in runes.iter().take(40) {
    rep.eval();
    for q in [entry.spaced_rune.to_string(), id.to_string()] {
      match ex.get_json(&format!("/rune/{q}")) {
        Err(e) => bad.push(("rune/request".into(), e)),
        Ok(r) if r.status != 200 => bad.push(("rune/status".into(), format!("{} for {q}", r.status))),
        Ok(r) => match r.json::<ServedRune>() {
          Err(e) => bad.push(("rune/json".into(), e)),
          Ok(v) => {
            // a spaced rune is served as its name: spacer bits beyond the last
            // letter have no printed form, so names are compared as displayed
            let mut stored = *entry;
            stored.spaced_rune = v.entry.spaced_rune;
            if v.entry == stored && v.entry.spaced_rune.to_string() == entry.spaced_rune.to_string() && v.id == *id {
              rep.count("runes_ok")
            } else {
              bad.push(("rune/entry".into(), format!("{q}: served {:?} / {}, stored {entry:?} / {id}", v.entry, v.id)))
            }
          }
        },
      }
    }
  }
  bad
}

fn check_chain_routes(ex: &Explorer, node: &Node, st: &State, rep: &mut Report, cfg: &IndexCfg, rng: &mut Rng) -> Vec<(String, String)> {
  let mut bad = Vec::new();
  let height = node.height();
  // newest-first listing of everything
  rep.eval();
  let got = pages(|p| ids_page(ex, if p == 0 { "/inscriptions".to_string() } else { format!("/inscriptions/{p}") }), &mut bad, "inscriptions");
  let want: Vec<InscriptionId> = st.entries.iter().rev().map(|e| e.id).collect();
  if got == want {
    rep.count("latest_listing_ok");
  } else {
    bad.push(("inscriptions/ids".into(), format!("served {} ids, stored {}; first difference at {:?}", got.len(), want.len(), got.iter().zip(want.iter()).position(|(a, b)| a != b))));
  }
  // status
  rep.eval();
  match ex.get_json("/status").and_then(|r| r.json::<serde_json::Value>()) {
    Err(e) => bad.push(("status/request".into(), e)),
    Ok(v) => {
      let n0 = bad.len();
      mismatch(&mut bad, "status/height", &v["height"].as_u64(), &Some(u64::from(height)));
      mismatch(&mut bad, "status/inscriptions", &v["inscriptions"].as_u64(), &Some(st.entries.len() as u64));
      mismatch(&mut bad, "status/blessed_inscriptions", &v["blessed_inscriptions"].as_u64(), &Some(st.entries.iter().filter(|e| e.inscription_number >= 0).count() as u64));
      mismatch(&mut bad, "status/cursed_inscriptions", &v["cursed_inscriptions"].as_u64(), &Some(st.entries.iter().filter(|e| e.inscription_number < 0).count() as u64));
      mismatch(&mut bad, "status/runes", &v["runes"].as_u64(), &Some(ex.index.runes().map(|r| r.len() as u64).unwrap_or(0)));
      mismatch(&mut bad, "status/sat_index", &v["sat_index"].as_bool(), &Some(cfg.sats));
      mismatch(&mut bad, "status/rune_index", &v["rune_index"].as_bool(), &Some(cfg.runes));
      mismatch(&mut bad, "status/address_index", &v["address_index"].as_bool(), &Some(cfg.addresses));
      mismatch(&mut bad, "status/transaction_index", &v["transaction_index"].as_bool(), &Some(cfg.transactions));
      mismatch(&mut bad, "status/unrecoverably_reorged", &v["unrecoverably_reorged"].as_bool(), &Some(false));
      if bad.len() == n0 {
        rep.count("status_ok");
      }
    }
  }
  // per transaction: raw hex, inscription count; per inscription: metadata
  let mut sample: Vec<&InscriptionEntry> = st.entries.iter().collect();
  rng.shuffle(&mut sample);
  for e in sample.iter().take(25) {
    rep.eval();
    let Some(tx) = st.txs.get(&e.id.txid) else { continue };
    let n0 = bad.len();
    match ex.get(&format!("/r/tx/{}", e.id.txid), &[]).and_then(|r| r.json::<String>()) {
      Ok(h) => mismatch(&mut bad, "r-tx/hex", &h, &bitcoin::consensus::encode::serialize_hex(tx)),
      Err(err) => bad.push(("r-tx/request".into(), err)),
    }
    match ex.get_json(&format!("/tx/{}", e.id.txid)).and_then(|r| r.json::<serde_json::Value>()) {
      Ok(v) => mismatch(&mut bad, "tx/inscription_count", &v["inscription_count"].as_u64(), &Some(st.entries.iter().filter(|o| o.id.txid == e.id.txid).count() as u64)),
      Err(err) => bad.push(("tx/request".into(), err)),
    }
    let envelope = ParsedEnvelope::from_transaction(tx).into_iter().nth(e.id.index as usize).map(|x| x.payload);
    if let Some(envelope) = envelope {
      match (ex.get(&format!("/r/metadata/{}", e.id), &[]), &envelope.metadata) {
        (Ok(r), Some(m)) if r.status == 200 => mismatch(&mut bad, "r-metadata/hex", &r.json::<String>().unwrap_or_default(), &hex::encode(m)),
        (Ok(r), Some(_)) => bad.push(("r-metadata/status".into(), format!("{} for an inscription with metadata", r.status))),
        (Ok(r), None) if r.status == 404 => {}
        (Ok(r), None) => bad.push(("r-metadata/status".into(), format!("{} for an inscription without metadata", r.status))),
        (Err(err), _) => bad.push(("r-metadata/request".into(), err)),
      }
    }
    if bad.len() == n0 {
      rep.count("transactions_ok");
    }
  }
  rep.eval();
  match ex.get("/r/blockheight", &[]) {
    Ok(r) if r.status == 200 && String::from_utf8_lossy(&r.body).trim() == height.to_string() => rep.count("blockheight_ok"),
    other => bad.push(("r-blockheight".into(), format!("{other:?} expected {height}"))),
  }
  for h in [0, height / 2, height] {
    rep.eval();
    let want = node.hash_at(h).unwrap().to_string();
    match ex.get(&format!("/r/blockhash/{h}"), &[]) {
      Ok(r) if r.status == 200 && r.json::<String>().ok().as_deref() == Some(&want) => rep.count("blockhash_ok"),
      other => bad.push(("r-blockhash".into(), format!("{:?} expected {want}", other.map(|r| String::from_utf8_lossy(&r.body).to_string())))),
    }
    match ex.get_json(&format!("/block/{h}")) {
      Ok(r) if r.status == 200 => match r.json::<api::Block>() {
        Ok(j) => {
          let want_ids: Vec<InscriptionId> = st.entries.iter().filter(|e| e.height == h).map(|e| e.id).collect();
          let n0 = bad.len();
          mismatch(&mut bad, "block/hash", &j.hash.to_string(), &want);
          mismatch(&mut bad, "block/height", &j.height, &h);
          mismatch(&mut bad, "block/best_height", &j.best_height, &height);
          mismatch(&mut bad, "block/inscriptions", &j.inscriptions, &want_ids);
          let mut want_runes: Vec<String> = ex.index.runes().unwrap_or_default().iter().filter(|(id, _)| id.block == u64::from(h)).map(|(_, e)| e.spaced_rune.to_string()).collect();
          want_runes.sort();
          let mut served_runes: Vec<String> = j.runes.iter().map(|r| r.to_string()).collect();
          served_runes.sort();
          mismatch(&mut bad, "block/runes", &served_runes, &want_runes);
          mismatch(&mut bad, "block/transactions", &j.transactions.len(), &node.block_at(h).unwrap().txdata.len());
          if bad.len() == n0 {
            rep.count("block_json_ok");
          }
        }
        Err(e) => bad.push(("block/json".into(), e)),
      },
      other => bad.push(("block/status".into(), format!("{:?}", other.map(|r| r.status)))),
    }
  }
  bad
}

pub fn run(ctx: &Ctx, rep: &mut Report) {
  for case in ctx.cases(u64::MAX) {
    let mut rng = ctx.rng(case);
    let dir = std::path::PathBuf::from(format!("{}/case{}", if ctx.scratch.is_empty() { "/tmp/verif-scratch".to_string() } else { ctx.scratch.clone() }, case));
    let _ = std::fs::remove_dir_all(&dir);
    std::fs::create_dir_all(&dir).unwrap();
    let mut cfg = IndexCfg::from_bits(0);
    cfg.inscriptions = true;
    cfg.sats = rng.chance(2, 3);
    cfg.runes = rng.chance(2, 3);
    cfg.addresses = rng.chance(1, 2);
    cfg.transactions = rng.chance(1, 2);
    cfg.commit_interval = Some(*rng.pick(&[1usize, 7, 5000]));
    let gencfg = GenCfg { w_transfer: 4, w_reveal: 6, w_rune: if cfg.runes { 4 } else { 0 }, max_txs: *rng.pick(&[4usize, 8]), ..GenCfg::default() };
    let blocks = if ctx.thorough() { rng.range(60, 160) as u32 } else { rng.range(30, 70) as u32 };
    let bulk_sizes: Vec<usize> = match rng.below(4) {
      0 => vec![],
      1 => vec![rng.usize(99, 102)],
      2 => vec![rng.usize(101, 130), rng.usize(60, 110)],
      _ => vec![rng.usize(199, 203), rng.usize(1, 5)],
    };
    // a third of the states index inscriptions and runes only from a later
    // height on (hook H5), like mainnet / signet / testnet do: the first block
    // with inscriptions then has no predecessor row in the per-height table
    let first_height: Option<u32> = rng.chance(1, 3).then(|| rng.range(4, 14) as u32);
    ord::verif::set_first_heights(first_height, first_height);
    let replay = json!({"replay": ctx.replay_info(case), "index": cfg.label(), "blocks": blocks, "bulk": bulk_sizes, "first_inscription_and_rune_height": first_height});

    let mut node = Node::new(Network::Regtest);
    let mut model = Model::new();
    model.runes.network = Network::Regtest;
    model.runes.first_rune_height = 0;
    model.runes.keep_log = false;
    model.apply_block(&node.block_at(0).unwrap());
    let mut bgen = Gen::new(gencfg);
    let mut bulk_at: Vec<(u32, usize)> = bulk_sizes.iter().map(|k| (rng.range(u64::from(blocks) / 2, u64::from(blocks) - 1) as u32, *k)).collect();
    for _ in 0..blocks {
      let height = model.height();
      // plenty of reveals in the first indexed block and its neighbours
      if let Some(fh) = first_height {
        bgen.cfg.w_reveal = if height + 1 >= fh && height <= fh + 1 { 40 } else { 6 };
        bgen.cfg.max_txs = if height + 1 >= fh && height <= fh + 1 { 8 } else { bgen.cfg.max_txs.min(8) };
      }
      let mut txdata = bgen.block(&mut rng, &model, height);
      if let Some(pos) = bulk_at.iter().position(|(h, _)| *h <= height) {
        let spent: BTreeSet<OutPoint> = txdata.iter().flat_map(|t| t.input.iter().map(|i| i.previous_output)).collect();
        if let Some(tx) = bulk_reveal(&mut rng, &bgen, &model, &spent, bulk_at[pos].1, height) {
          txdata.push(tx);
          bulk_at.remove(pos);
          rep.count("bulk_reveals_mined");
        }
      }
      let block = node.push_block(txdata);
      model.apply_block(&block);
    }

    let ex = match Explorer::start(&node, &dir, &cfg, &[], &[]) {
      Ok(ex) => ex,
      Err(e) => {
        rep.inconclusive(format!("could not start the explorer: {e}"));
        continue;
      }
    };
    let tables = match ex.index.verif_inscription_tables() {
      Ok(t) => t,
      Err(e) => {
        rep.inconclusive(format!("hook H2 failed: {e}"));
        continue;
      }
    };
    let mut st = State {
      satpoint: tables.satpoints.iter().copied().collect(),
      seq_of: tables.id_to_sequence_number.iter().copied().collect(),
      children: BTreeMap::new(),
      by_sat: BTreeMap::new(),
      txs: BTreeMap::new(),
      entries: tables.entries,
      network: Network::Regtest,
    };
    for (p, c) in &tables.children {
      st.children.entry(*p).or_default().push(*c);
    }
    for (sat, seq) in &tables.sat_to_sequence_number {
      st.by_sat.entry(*sat).or_default().push(*seq);
    }
    for h in 0..=node.height() {
      for tx in node.block_at(h).unwrap().txdata {
        st.txs.insert(tx.compute_txid(), tx);
      }
    }
    rep.distinct(&(cfg.label(), st.entries.len().min(400) / 20, bulk_sizes.clone()));
    rep.add("inscriptions_in_states", st.entries.len() as u64);
    rep.count("states");

    let mut bad: Vec<(String, String)> = Vec::new();
    // every inscription (a sample of the largest states)
    let mut order: Vec<usize> = (0..st.entries.len()).collect();
    if order.len() > 400 {
      rng.shuffle(&mut order);
      // always keep the special ones
      order.sort_by_key(|i| {
        let sp = st.satpoint[&(*i as u32)];
        !(sp.outpoint == OutPoint::null() || sp.outpoint == ord::unbound_outpoint() || Charm::Burned.is_set(st.entries[*i].charms))
      });
      order.truncate(400);
    }
    for i in order {
      let e = st.entries[i].clone();
      bad.extend(check_inscription(&ex, &st, &e, rep));
      // by number
      if i % 7 == 0 {
        rep.eval();
        match ex.get_json(&format!("/inscription/{}", e.inscription_number)) {
          Ok(r) if r.status == 200 => match r.json::<api::Inscription>() {
            Ok(j) if j.id == e.id => rep.count("inscription_by_number_ok"),
            Ok(j) => bad.push(("inscription-by-number/id".into(), format!("number {} serves {}, stored {}", e.inscription_number, j.id, e.id))),
            Err(err) => bad.push(("inscription-by-number/json".into(), err)),
          },
          Ok(r) => bad.push(("inscription-by-number/status".into(), format!("{} for number {}", r.status, e.inscription_number))),
          Err(err) => bad.push(("inscription-by-number/request".into(), err)),
        }
      }
    }
    bad.extend(check_listings(&ex, &st, rep, &mut rng, cfg.sats));
    bad.extend(check_outputs(&ex, &st, rep, &mut rng, &cfg));
    bad.extend(check_chain_routes(&ex, &node, &st, rep, &cfg, &mut rng));
    ex.stop();

    let mut seen = BTreeSet::new();
    for (what, detail) in bad {
      if what.starts_with("harness/") {
        rep.inconclusive(format!("{what}: {detail}"));
        continue;
      }
      if seen.insert(what.clone()) {
        rep.violation(&format!("C18/{what}"), detail, replay.clone());
      }
    }
    if rep.want_sample() {
      rep.sample(json!({"index": cfg.label(), "blocks": blocks, "inscriptions": st.entries.len(), "parents_with_children": st.children.len(), "max_children": st.children.values().map(|v| v.len()).max(), "max_on_one_sat": st.by_sat.values().map(|v| v.len()).max()}));
    }
    ord::verif::set_first_heights(None, None);
    if first_height.is_some() {
      rep.count("states_with_late_first_inscription_height");
    }
    let _ = std::fs::remove_dir_all(&dir);
  }
}
