//! C28 — inscription properties round-trip and decoding is bounded.
//!
//! Monitors:
//!  * round trip of generated `Properties` through the inline and packed CBOR
//!    encoders (hook H4), through `Inscription::new` with and without
//!    compression (which picks the smallest of up to four candidates), and
//!    through a reveal script; the inline/packed bytes are additionally
//!    decoded by a reference reader built on a generic CBOR parser
//!    (ciborium) following the schema in docs/src/inscriptions/properties.md;
//!  * totality of the decoder on hostile bytes (deep nesting, indefinite and
//!    huge declared lengths, mutated valid encodings), in both the plain and
//!    the brotli-encoded field;
//!  * bounded decompression: for brotli streams of every ratio around the
//!    30:1 limit and sizes around the 4,000,000-byte limit, the bytes ord
//!    hands to the CBOR decoder are compared with a full decompression
//!    (accepted iff within min(30 x compressed, 4,000,000)), and the peak
//!    heap used by the call is measured with a counting allocator.

use crate::{alloc_track, ctx::Ctx, gen_insc::{brotli_compress, id_value, nasty_cbor}, report::{Report, catch, panic_signature}, rng::Rng};
use bitcoin::{Txid, hashes::Hash, script};
use ciborium::Value;
use ord::{Attributes, Chain, Inscription, InscriptionId, Item, ParsedEnvelope, Properties, Trait, Traits};
use serde_json::json;
use std::io::Read;

const MAX_SIZE: usize = 4_000_000;
const MAX_RATIO: usize = 30;
/// brotli's own ring buffer (up to 16 MiB for the windows ord's encoder
/// uses, more for large-window streams) plus vector growth.
const HEAP_SLACK: usize = 96 << 20;

fn gen_string(rng: &mut Rng) -> String {
  let n = match rng.below(8) {
    0 => 0,
    1 => 1,
    2 => rng.usize(23, 25),   // CBOR short/1-byte length boundary
    3 => rng.usize(255, 257), // 1-byte / 2-byte length boundary
    4 => rng.usize(1000, 3000),
    _ => rng.usize(1, 16),
  };
  (0..n)
    .map(|_| match rng.below(8) {
      0 => 'é',
      1 => '名',
      2 => '🙂',
      3 => '\0',
      4 => '"',
      _ => (b'a' + rng.below(26) as u8) as char,
    })
    .collect()
}

fn gen_traits(rng: &mut Rng) -> Traits {
  let n = match rng.below(10) {
    0..=3 => 0,
    4 | 5 => 1,
    6 | 7 => rng.usize(2, 6),
    8 => rng.usize(22, 26),
    _ => rng.usize(100, 300),
  };
  let mut names = std::collections::HashSet::new();
  let mut items = Vec::new();
  while items.len() < n {
    let name = if items.len() < 3 { gen_string(rng) } else { format!("{}{}", gen_string(rng), items.len()) };
    if !names.insert(name.clone()) {
      continue;
    }
    let value = match rng.below(8) {
      0 => Trait::Bool(rng.chance(1, 2)),
      1 => Trait::Null,
      2 => Trait::Integer(*rng.pick(&[0i64, -1, 1, 23, 24, -24, -25, 255, 256, -256, -257, 65535, 65536, i64::from(u32::MAX), i64::from(u32::MAX) + 1, i64::MAX, i64::MIN, i64::MIN + 1])),
      3 => Trait::Integer(rng.next_u64() as i64 >> rng.below(64)),
      _ => Trait::String(gen_string(rng)),
    };
    items.push((name, value));
  }
  Traits { items }
}

fn gen_attributes(rng: &mut Rng) -> Attributes {
  if rng.chance(1, 3) {
    return Attributes::default();
  }
  Attributes {
    title: rng.chance(2, 3).then(|| gen_string(rng)),
    traits: gen_traits(rng),
  }
}

fn gen_id(rng: &mut Rng, pool: &[Txid]) -> InscriptionId {
  let index = match rng.below(8) {
    0..=2 => 0,
    3 => 255 + rng.below(2) as u32,
    4 => 65_535 + rng.below(2) as u32,
    5 => u32::MAX,
    6 => 1u32 << rng.below(32),
    _ => rng.next_u32() >> rng.below(32),
  };
  let txid = if !pool.is_empty() && rng.chance(1, 3) { *rng.pick(pool) } else { Txid::from_byte_array(rng.bytes(32).try_into().unwrap()) };
  InscriptionId { txid, index }
}

fn gen_properties(rng: &mut Rng, thorough: bool) -> Properties {
  let n = match rng.below(16) {
    0 | 1 => 0,
    2 | 3 => 1,
    4..=9 => rng.usize(2, 10),
    10 | 11 => rng.usize(22, 26),
    12 | 13 => rng.usize(100, 300),
    14 => rng.usize(255, 257),
    _ => {
      if thorough {
        rng.usize(1000, 5000)
      } else {
        rng.usize(500, 1200)
      }
    }
  };
  let pool: Vec<Txid> = (0..3).map(|_| Txid::from_byte_array(rng.bytes(32).try_into().unwrap())).chain([Txid::all_zeros()]).collect();
  let rich = n < 400 || rng.chance(1, 4);
  let same_title = rng.chance(1, 5).then(|| gen_string(rng));
  let gallery = (0..n)
    .map(|_| Item {
      id: Some(gen_id(rng, &pool)),
      attributes: if let Some(t) = &same_title {
        Attributes { title: Some(t.clone()), traits: Traits::default() }
      } else if rich {
        gen_attributes(rng)
      } else {
        Attributes::default()
      },
      index: None,
    })
    .collect();
  Properties {
    gallery,
    attributes: gen_attributes(rng),
    txids: Vec::new(),
  }
}

// ---------------------------------------------------------------- reference

fn ref_int(v: &Value) -> Option<i128> {
  match v {
    Value::Integer(i) => Some(i128::from(*i)),
    _ => None,
  }
}

fn ref_attributes(v: &Value) -> Option<Attributes> {
  let Value::Map(entries) = v else { return None };
  let mut a = Attributes::default();
  for (k, v) in entries {
    match ref_int(k) {
      Some(0) => a.title = Some(v.as_text()?.to_string()),
      Some(1) => {
        let Value::Map(traits) = v else { return None };
        for (name, value) in traits {
          let value = match value {
            Value::Bool(b) => Trait::Bool(*b),
            Value::Null => Trait::Null,
            Value::Integer(i) => Trait::Integer(i64::try_from(i128::from(*i)).ok()?),
            Value::Text(s) => Trait::String(s.clone()),
            _ => return None,
          };
          a.traits.items.push((name.as_text()?.to_string(), value));
        }
      }
      _ => {}
    }
  }
  Some(a)
}

fn ref_id(bytes: &[u8]) -> Option<InscriptionId> {
  if bytes.len() < 32 || bytes.len() > 36 {
    return None;
  }
  let mut index = [0u8; 4];
  index[..bytes.len() - 32].copy_from_slice(&bytes[32..]);
  Some(InscriptionId { txid: Txid::from_slice(&bytes[..32]).ok()?, index: u32::from_le_bytes(index) })
}

/// Reader for both documented encodings, on top of a generic CBOR parser.
fn ref_properties(cbor: &[u8]) -> Option<Properties> {
  let v: Value = ciborium::from_reader(cbor).ok()?;
  let Value::Map(entries) = v else { return None };
  let mut p = Properties::default();
  let mut txids: Vec<u8> = Vec::new();
  let mut indices: Vec<Option<u32>> = Vec::new();
  for (k, v) in &entries {
    match ref_int(k) {
      Some(0) => {
        let Value::Array(items) = v else { return None };
        for item in items {
          let Value::Map(fields) = item else { return None };
          let mut it = Item::default();
          let mut index = None;
          for (k, v) in fields {
            match ref_int(k) {
              Some(0) => it.id = Some(ref_id(v.as_bytes()?)?),
              Some(1) => it.attributes = ref_attributes(v)?,
              Some(2) => index = Some(u32::try_from(ref_int(v)?).ok()?),
              _ => {}
            }
          }
          indices.push(index);
          p.gallery.push(it);
        }
      }
      Some(1) => p.attributes = ref_attributes(v)?,
      Some(2) => txids = v.as_bytes()?.clone(),
      _ => {}
    }
  }
  for (i, item) in p.gallery.iter_mut().enumerate() {
    if let Some(txid) = txids.get(32 * i..32 * i + 32) {
      item.id = Some(InscriptionId { txid: Txid::from_slice(txid).ok()?, index: indices[i].unwrap_or(0) });
    }
  }
  if p.gallery.iter().any(|i| i.id.is_none()) {
    p.gallery.clear();
  }
  Some(p)
}

fn summary(p: &Properties) -> String {
  let s = format!("{p:?}");
  if s.chars().count() > 700 { format!("{}… ({} items, {} bytes)", s.chars().take(700).collect::<String>(), p.gallery.len(), s.len()) } else { s }
}

fn first_difference(a: &Properties, b: &Properties) -> String {
  if a.attributes != b.attributes {
    return format!("attributes: wrote {:?} read {:?}", a.attributes, b.attributes);
  }
  if a.gallery.len() != b.gallery.len() {
    return format!("gallery length: wrote {} read {}", a.gallery.len(), b.gallery.len());
  }
  for (i, (x, y)) in a.gallery.iter().zip(b.gallery.iter()).enumerate() {
    if x != y {
      return format!("gallery item {i}: wrote {x:?} read {y:?}");
    }
  }
  format!("txids: {} vs {}", a.txids.len(), b.txids.len())
}

fn roundtrip_case(rng: &mut Rng, rep: &mut Report, replay: &serde_json::Value, thorough: bool) {
  let p = gen_properties(rng, thorough);
  let shape = (p.gallery.len().min(300) / 10, p.gallery.iter().filter(|i| i.id.unwrap().index != 0).count().min(3), p.attributes.traits.items.len().min(30), p.attributes.title.is_some());
  rep.distinct(&shape);
  let is_default = p == Properties::default();

  // the two encoders, each read back by ord and by the reference reader
  for form in ["inline", "packed"] {
    rep.eval();
    let enc = catch(|| if form == "inline" { p.verif_to_inline_cbor() } else { p.verif_to_packed_cbor() });
    let bytes = match enc {
      Err(panic) => {
        rep.violation(&format!("C28/{form}/encode-panic/{}", panic_signature(&panic)), format!("{panic}: {}", summary(&p)), replay.clone());
        continue;
      }
      Ok(None) if is_default => {
        rep.count("default_properties_not_encoded");
        continue;
      }
      Ok(None) => {
        rep.violation(&format!("C28/{form}/not-encoded"), summary(&p), replay.clone());
        continue;
      }
      Ok(Some(b)) => b,
    };
    match catch(|| Properties::verif_from_cbor(&bytes)) {
      Err(panic) => rep.violation(&format!("C28/{form}/decode-panic/{}", panic_signature(&panic)), format!("{panic}: {}", summary(&p)), replay.clone()),
      Ok(q) if q == p => rep.count(&format!("roundtrip_ok_{form}")),
      Ok(q) => rep.violation(&format!("C28/{form}/roundtrip-differs"), first_difference(&p, &q), replay.clone()),
    }
    match ref_properties(&bytes) {
      Some(q) if q == p => rep.count(&format!("reference_reader_agrees_{form}")),
      Some(q) => rep.violation(&format!("C28/{form}/encoding-not-as-documented"), format!("reference reader: {}", first_difference(&p, &q)), replay.clone()),
      None => rep.violation(&format!("C28/{form}/encoding-not-as-documented"), format!("reference reader cannot read {} bytes: {}", bytes.len(), hex::encode(&bytes[..bytes.len().min(120)])), replay.clone()),
    }
  }

  // Inscription::new chooses among inline / packed / compressed candidates
  // ord compresses with brotli quality 11, roughly a second per 100 kB here:
  // large values take the compressing path only now and then
  let inline_len = p.verif_to_inline_cbor().map(|b| b.len()).unwrap_or(0);
  let skip_compress = inline_len > 20_000 && !rng.chance(1, if thorough { 3 } else { 10 });
  for compress in [false, true] {
    if compress && skip_compress {
      rep.count("compressing_path_skipped_for_size");
      continue;
    }
    rep.eval();
    let built = catch(|| Inscription::new(Chain::Regtest, compress, None, None, None, Vec::new(), None, None, p.clone(), None));
    let inscription = match built {
      Err(panic) => {
        rep.violation(&format!("C28/new/panic/{}", panic_signature(&panic)), format!("{panic}: {}", summary(&p)), replay.clone());
        continue;
      }
      Ok(Err(e)) => {
        // ord may refuse to build: over the size limit, or too compressible
        let msg = e.to_string();
        if msg.contains("byte limit") || msg.contains("compression over") {
          rep.count("new_refused_documented_limit");
        } else {
          rep.violation("C28/new/unexpected-error", format!("{msg}: {}", summary(&p)), replay.clone());
        }
        continue;
      }
      Ok(Ok(i)) => i,
    };
    match &inscription.property_encoding {
      Some(_) => rep.count("new_chose_brotli"),
      None => rep.count("new_chose_plain"),
    }
    // read back directly and through a reveal script
    let direct = catch(|| inscription.verif_properties());
    let script = inscription.append_reveal_script_to_builder(script::Builder::new()).into_script();
    let mut w = bitcoin::Witness::new();
    w.push(script.as_bytes());
    w.push([0xc0u8]);
    let tx = bitcoin::Transaction {
      version: bitcoin::transaction::Version::TWO,
      lock_time: bitcoin::absolute::LockTime::ZERO,
      input: vec![bitcoin::TxIn { witness: w, ..Default::default() }],
      output: Vec::new(),
    };
    let via_script = catch(|| ParsedEnvelope::from_transaction(&tx).into_iter().map(|e| e.payload.verif_properties()).collect::<Vec<_>>());
    for (route, got) in [("new", direct.map(|q| vec![q])), ("script", via_script)] {
      match got {
        Err(panic) => rep.violation(&format!("C28/{route}/decode-panic/{}", panic_signature(&panic)), format!("{panic}: {}", summary(&p)), replay.clone()),
        Ok(v) if v.len() == 1 && v[0] == p => rep.count(&format!("roundtrip_ok_{route}_compress_{compress}")),
        Ok(v) if v.len() != 1 => rep.violation(&format!("C28/{route}/envelope-count"), format!("{} envelopes", v.len()), replay.clone()),
        Ok(v) => rep.violation(
          &format!("C28/{route}/roundtrip-differs"),
          format!("compress={compress} encoding={:?}: {}", inscription.property_encoding.as_ref().map(|e| String::from_utf8_lossy(e).to_string()), first_difference(&p, &v[0])),
          replay.clone(),
        ),
      }
    }
  }
  if rep.want_sample() {
    rep.sample(json!({"properties": summary(&p), "inline_bytes": p.verif_to_inline_cbor().map(|b| b.len()), "packed_bytes": p.verif_to_packed_cbor().map(|b| b.len())}));
  }
}

fn full_decompress(data: &[u8], cap: usize) -> Result<Vec<u8>, ()> {
  let mut d = brotli::Decompressor::new(data, 4096);
  let mut out = Vec::new();
  let mut buf = vec![0u8; 1 << 16];
  loop {
    match d.read(&mut buf) {
      Ok(0) => return Ok(out),
      Ok(n) => {
        out.extend_from_slice(&buf[..n]);
        if out.len() > cap {
          return Ok(out); // longer than anything ord may accept
        }
      }
      Err(_) => return Err(()),
    }
  }
}

fn mutate(rng: &mut Rng, v: &mut Vec<u8>) {
  for _ in 0..rng.usize(1, 4) {
    if v.is_empty() {
      return;
    }
    let at = rng.usize(0, v.len() - 1);
    match rng.below(6) {
      0 => v.truncate(at),
      1 => v[at] = rng.below(256) as u8,
      2 => v[at] ^= 1 << rng.below(8),
      3 => v.insert(at, *rng.pick(&[0x9fu8, 0xbf, 0x5f, 0x7f, 0xff, 0xc0, 0xf6, 0xf9, 0xfb, 0x1b, 0x3b, 0x9b, 0xbb])),
      4 => {
        v.remove(at);
      }
      _ => {
        let chunk: Vec<u8> = v[at..(at + rng.usize(1, 30)).min(v.len())].to_vec();
        let at2 = rng.usize(0, v.len());
        v.splice(at2..at2, chunk);
      }
    }
  }
}

/// Offsets of every length-carrying header (byte string, text, array, map) of a
/// definite-length CBOR item starting at `pos`: (offset, header length, major
/// type, nesting depth). `None` for anything the walker does not understand.
fn walk_cbor(v: &[u8], pos: usize, out: &mut Vec<(usize, usize, u8, usize)>) -> Option<usize> {
  fn item(v: &[u8], pos: usize, depth: usize, out: &mut Vec<(usize, usize, u8, usize)>) -> Option<usize> {
    let b = *v.get(pos)?;
    let (major, info) = (b >> 5, b & 31);
    let (arg, hl): (u64, usize) = match info {
      0..=23 => (info.into(), 1),
      24 => ((*v.get(pos + 1)?).into(), 2),
      25 => (u16::from_be_bytes(v.get(pos + 1..pos + 3)?.try_into().ok()?).into(), 3),
      26 => (u32::from_be_bytes(v.get(pos + 1..pos + 5)?.try_into().ok()?).into(), 5),
      27 => (u64::from_be_bytes(v.get(pos + 1..pos + 9)?.try_into().ok()?), 9),
      _ => return None,
    };
    let mut next = pos + hl;
    match major {
      0 | 1 | 7 => {}
      2 | 3 => {
        out.push((pos, hl, major, depth));
        next = next.checked_add(usize::try_from(arg).ok()?)?;
        if next > v.len() {
          return None;
        }
      }
      4 | 5 => {
        out.push((pos, hl, major, depth));
        for _ in 0..arg.checked_mul(if major == 5 { 2 } else { 1 })? {
          next = item(v, next, depth + 1, out)?;
        }
      }
      _ => next = item(v, next, depth, out)?,
    }
    Some(next)
  }
  item(v, pos, 0, out)
}

fn hostile_cbor(rng: &mut Rng, thorough: bool) -> (Vec<u8>, &'static str) {
  match rng.below(8) {
    0 | 1 => (nasty_cbor(rng), "nasty"),
    2 | 3 => {
      let p = gen_properties(rng, false);
      let mut v = if rng.chance(1, 2) { p.verif_to_inline_cbor() } else { p.verif_to_packed_cbor() }.unwrap_or_default();
      mutate(rng, &mut v);
      (v, "mutated-valid")
    }
    4 => {
      // nesting far deeper than any recursion budget, inside an ignored key
      let depth = if thorough { rng.usize(100_000, 2_000_000) } else { rng.usize(10_000, 300_000) };
      let mut v = vec![0xa1, 0x18, 0x63];
      v.extend(std::iter::repeat_n(*rng.pick(&[0x81u8, 0xa1, 0xc1, 0x9f, 0xbf]), depth));
      (v, "deep-nesting")
    }
    5 => {
      // huge declared lengths at every schema position
      let huges: [&[u8]; 5] = [&[0x9b, 0xff, 0xff, 0xff, 0xff, 0xff, 0xff, 0xff, 0xff], &[0x9a, 0xff, 0xff, 0xff, 0xff], &[0xbb, 0x7f, 0xff, 0xff, 0xff, 0xff, 0xff, 0xff, 0xff], &[0x5b, 0x00, 0x00, 0x00, 0xff, 0xff, 0xff, 0xff, 0xff], &[0x7a, 0xff, 0xff, 0xff, 0xff]];
      let huge: &[u8] = huges[rng.usize(0, 4)];
      let mut v = vec![0xa1];
      v.push(rng.below(3) as u8);
      if rng.chance(1, 2) {
        v.extend([0x81, 0xa1, rng.below(3) as u8]);
      }
      v.extend(huge);
      let n = rng.usize(0, 40);
      v.extend(rng.bytes(n));
      (v, "huge-length")
    }
    6 => {
      // duplicate keys, wrong types, ids of every length, txids not a multiple of 32
      let mut v = vec![0xa4, 0x00, 0x82, 0xa1, 0x00];
      let n = *rng.pick(&[0usize, 1, 31, 32, 33, 36, 37, 64]);
      v.push(0x58);
      v.push(n as u8);
      v.extend(rng.bytes(n));
      v.extend([0xa1, 0x02, 0x1b]);
      v.extend(rng.bytes(8));
      v.extend([0x02, 0x58]);
      let n = *rng.pick(&[0usize, 1, 31, 32, 33, 63, 64, 65, 96]);
      v.push(n as u8);
      v.extend(rng.bytes(n));
      v.extend([0x00, 0x80, 0x01, 0xa2, 0x01, 0xa2, 0x61, 0x61, 0x01, 0x61, 0x61, 0x02, 0x00, 0x61, 0x62]);
      (v, "schema-abuse")
    }
    _ => {
      let n = rng.usize(0, 2000);
      (rng.bytes(n), "random")
    }
  }
}

/// A valid encoding in which the declared length of one string, byte string,
/// array or map is replaced by a huge one, for every header the walker finds
/// (gallery, item, id, attributes, title, traits, trait name, trait value).
/// What follows the header no longer matches it, so a decoder that trusts the
/// declared number (preallocation, skipping) is exposed, while one that only
/// believes the bytes present just runs out of input.
fn huge_at_every_position(rng: &mut Rng, rep: &mut Report, replay: &serde_json::Value) {
  let p = gen_properties(rng, false);
  let packed = rng.chance(1, 2);
  let Some(v) = (if packed { p.verif_to_packed_cbor() } else { p.verif_to_inline_cbor() }) else {
    rep.count("huge_at_position_not_encodable");
    return;
  };
  let mut heads = Vec::new();
  if walk_cbor(&v, 0, &mut heads).is_none() {
    rep.count("huge_at_position_unwalkable");
    return;
  }
  // all shallow headers, a sample of the (many, alike) deep ones
  let max_depth = heads.iter().map(|h| h.3).max().unwrap_or(0);
  let mut chosen = Vec::new();
  for depth in 0..=max_depth {
    let mut at: Vec<_> = heads.iter().filter(|h| h.3 == depth).copied().collect();
    while at.len() > 12 {
      at.swap_remove(rng.usize(0, at.len() - 1));
    }
    chosen.extend(at);
  }
  for (off, hl, major, depth) in chosen {
    for _ in 0..2 {
      let declared: u64 = match rng.below(8) {
        0 => u64::MAX,
        1 => 1 << 63,
        2 => (1 << 63) - 1,
        3 => (isize::MAX as u64) / 56 + 1 + rng.below(1000),
        4 => (isize::MAX as u64) / rng.range(1, 256) + 1,
        5 => 1 << rng.range(56, 63),
        6 => u64::MAX - rng.below(64),
        _ => (1 << 62) + rng.next_u64() % (1 << 62),
      };
      let mut bytes = v.clone();
      let mut head = vec![major << 5 | 27];
      head.extend(declared.to_be_bytes());
      bytes.splice(off..off + hl, head);
      rep.eval();
      rep.distinct(&("huge-at", packed, major, depth, 64 - declared.leading_zeros()));
      match catch(|| Properties::verif_from_cbor(&bytes)) {
        Ok(_) => rep.count(&format!("huge_at_position_decoded_major{major}")),
        Err(p) => {
          rep.violation(
            &format!("C28/decode/panic/{}", panic_signature(&p)),
            format!("{p}; valid {} encoding with the header at offset {off} (major type {major}, depth {depth}) declaring {declared}: {}", if packed { "packed" } else { "inline" }, hex::encode(&bytes[..bytes.len().min(120)])),
            replay.clone(),
          );
          return;
        }
      }
    }
  }
}

fn totality_case(rng: &mut Rng, rep: &mut Report, replay: &serde_json::Value, thorough: bool) {
  if rng.chance(1, 6) {
    return huge_at_every_position(rng, rep, replay);
  }
  let (bytes, class) = hostile_cbor(rng, thorough);
  rep.eval();
  rep.distinct(&("hostile", class, bytes.len().min(4000) / 100));
  match catch(|| Properties::verif_from_cbor(&bytes)) {
    Ok(_) => rep.count(&format!("hostile_decoded_{class}")),
    Err(p) => {
      rep.violation(&format!("C28/decode/panic/{}", panic_signature(&p)), format!("{p}; {} bytes {}", bytes.len(), hex::encode(&bytes[..bytes.len().min(100)])), replay.clone());
      return;
    }
  }
  // the same bytes in the field of an inscription, plain and brotli-encoded
  let compressed = brotli_compress(&bytes);
  for (field, encoding) in [(bytes.clone(), None), (compressed, Some(b"br".to_vec())), (bytes, Some(b"br".to_vec()))] {
    let i = Inscription { properties: Some(field), property_encoding: encoding, ..Default::default() };
    rep.eval();
    match catch(|| i.verif_properties()) {
      Ok(_) => rep.count("hostile_field_decoded"),
      Err(p) => rep.violation(&format!("C28/field/panic/{}", panic_signature(&p)), format!("{p}; class {class}"), replay.clone()),
    }
  }
}

/// A brotli stream whose decompressed/compressed ratio and size are chosen
/// around the two limits: incompressible bytes followed by zeros.
fn bounded_case(rng: &mut Rng, rep: &mut Report, replay: &serde_json::Value, thorough: bool) {
  let (random_len, total_len, class): (usize, usize, &str) = match rng.below(10) {
    0 | 1 => {
      // ratio edge: total ~ 30 x compressed
      let r = rng.usize(50, 20_000);
      (r, r * MAX_RATIO + rng.usize(0, 400) - 200, "ratio-edge")
    }
    2 | 3 => {
      // size edge: about 4,000,000 bytes with the ratio well under 30
      let r = rng.usize(140_000, 400_000);
      (r, MAX_SIZE + rng.usize(0, 8) - 4, "size-edge")
    }
    4 => (rng.usize(150_000, 300_000), rng.usize(MAX_SIZE - 5000, MAX_SIZE + 5000), "size-near"),
    5 | 6 => {
      // bombs
      let total = if thorough { rng.usize(1 << 20, 256 << 20) } else { rng.usize(1 << 20, 48 << 20) };
      (rng.usize(0, 64), total, "bomb")
    }
    7 => (rng.usize(0, 3000), rng.usize(0, 60_000), "small"),
    8 => {
      let r = rng.usize(1, 2000);
      (r, r * rng.usize(1, 60), "ratio-sweep")
    }
    _ => (rng.usize(0, 100), rng.usize(0, 4096 * 3), "buffer-edge"),
  };
  let total_len = total_len.max(random_len);
  let mut plain = rng.bytes(random_len);
  plain.resize(total_len, 0);
  let mut stream = brotli_compress(&plain);
  let damage = rng.below(12);
  match damage {
    0 => {
      let at = rng.usize(0, stream.len());
      stream.truncate(at)
    }
    1 => {
      let n = rng.usize(1, 50);
      stream.extend(rng.bytes(n))
    }
    _ => {}
  }
  let bound = stream.len().saturating_mul(MAX_RATIO).min(MAX_SIZE);
  let reference = full_decompress(&stream, MAX_SIZE + (1 << 16));
  let encoding: Option<Vec<u8>> = match rng.below(12) {
    0 => Some(b"gzip".to_vec()),
    1 => Some(b"BR".to_vec()),
    2 => Some(Vec::new()),
    _ => Some(b"br".to_vec()),
  };
  let i = Inscription { properties: Some(stream.clone()), property_encoding: encoding.clone(), ..Default::default() };
  rep.eval();
  rep.distinct(&("bounded", class, damage.min(2), encoding.as_deref() == Some(b"br"), (total_len / bound.max(1)).min(40)));
  let (got, peak) = alloc_track::measure(|| catch(|| i.verif_properties_cbor()));
  rep.max("max_peak_heap_bytes_during_decode", peak as u64);
  let describe = format!("class {class}: {} compressed bytes, {} decompressed, bound {bound}, encoding {:?}", stream.len(), total_len, encoding.as_ref().map(|e| String::from_utf8_lossy(e).to_string()));
  let got = match got {
    Err(p) => {
      rep.violation(&format!("C28/bounded/panic/{}", panic_signature(&p)), format!("{p}; {describe}"), replay.clone());
      return;
    }
    Ok(g) => g,
  };
  if let Some(v) = &got
    && v.len() > bound
  {
    rep.violation("C28/bounded/expanded-beyond-limit", format!("{} bytes handed to the decoder; {describe}", v.len()), replay.clone());
    return;
  }
  if peak > 2 * bound + HEAP_SLACK {
    rep.violation("C28/bounded/peak-heap", format!("peak heap {peak} bytes during one decode; {describe}"), replay.clone());
    return;
  }
  let want: Option<Vec<u8>> = if encoding.as_deref() != Some(b"br") {
    None
  } else {
    match reference {
      Err(()) => None,
      Ok(full) if full.len() > bound => None,
      Ok(full) => Some(full),
    }
  };
  if got == want {
    rep.count(if want.is_some() { "bounded_accepted_within_limits" } else { "bounded_refused" });
    rep.count(&format!("bounded_class_{class}"));
    if want.is_none() && encoding.as_deref() == Some(b"br") && damage > 1 {
      rep.count("bounded_refused_over_limit");
    }
    // and the decoder proper on top of it
    let (r, peak2) = alloc_track::measure(|| catch(|| i.verif_properties()));
    rep.max("max_peak_heap_bytes_during_decode", peak2 as u64);
    if let Err(p) = r {
      rep.violation(&format!("C28/bounded/panic/{}", panic_signature(&p)), format!("{p}; {describe}"), replay.clone());
    } else if peak2 > 4 * bound + HEAP_SLACK {
      rep.violation("C28/bounded/peak-heap", format!("peak heap {peak2} bytes during properties(); {describe}"), replay.clone());
    }
  } else {
    rep.violation(
      if want.is_some() { "C28/bounded/refused-within-limits" } else { "C28/bounded/accepted-beyond-limits" },
      format!("ord returned {:?} bytes, the documented limits give {:?}; {describe}", got.as_ref().map(|v| v.len()), want.as_ref().map(|v| v.len())),
      replay.clone(),
    );
  }
}

/// ord refuses to build properties that compress better than 30:1 and refuses
/// to expand a field beyond 30 x its compressed size: walk galleries of
/// growing size through that boundary and require that everything ord agrees
/// to build also reads back.
fn ratio_boundary_sweep(rep: &mut Report, replay: &serde_json::Value, seed: u64) {
  let txid = Txid::from_byte_array([(seed % 251) as u8; 32]);
  let gallery = |n: usize| Properties {
    gallery: (0..n).map(|i| Item { id: Some(InscriptionId { txid, index: (i % 3) as u32 }), attributes: Attributes { title: Some("the same title again".into()), traits: Traits::default() }, index: None }).collect(),
    attributes: Attributes::default(),
    txids: Vec::new(),
  };
  let builds = |n: usize| catch(|| Inscription::new(Chain::Regtest, true, None, None, None, Vec::new(), None, None, gallery(n), None));
  // largest n that ord still builds (the ratio grows with n)
  let (mut lo, mut hi) = (1usize, 4096usize);
  if !matches!(builds(lo), Ok(Ok(_))) || matches!(builds(hi), Ok(Ok(_))) {
    rep.observe("ratio sweep: boundary not bracketed".to_string());
    return;
  }
  while hi - lo > 1 {
    let mid = (lo + hi) / 2;
    if matches!(builds(mid), Ok(Ok(_))) { lo = mid } else { hi = mid }
  }
  rep.max("max_ratio_sweep_largest_gallery_built", lo as u64);
  for n in lo.saturating_sub(12).max(1)..=lo + 2 {
    rep.eval();
    let p = gallery(n);
    match builds(n) {
      Err(panic) => rep.violation(&format!("C28/new/panic/{}", panic_signature(&panic)), panic, replay.clone()),
      Ok(Err(_)) => rep.count("ratio_sweep_refused"),
      Ok(Ok(i)) => {
        let q = i.verif_properties();
        let raw = i.properties.as_ref().map(|b| b.len()).unwrap_or(0);
        let inline = p.verif_to_inline_cbor().map(|b| b.len()).unwrap_or(0);
        if q == p {
          rep.count("ratio_sweep_roundtrip_ok");
        } else {
          rep.violation(
            "C28/new/roundtrip-differs/at-the-compression-ratio-limit",
            format!("gallery of {n} items: ord built a {} field of {raw} bytes (encoding {:?}) for {inline} bytes of inline CBOR, and reads back {} items", if i.property_encoding.is_some() { "compressed" } else { "plain" }, i.property_encoding.as_ref().map(|e| String::from_utf8_lossy(e).to_string()), q.gallery.len()),
            replay.clone(),
          );
        }
      }
    }
  }
}

pub fn run(ctx: &Ctx, rep: &mut Report) {
  if ctx.deterministic_part() || ctx.shard % 4 == 1 {
    ratio_boundary_sweep(rep, &ctx.replay_info(u64::MAX), ctx.seed + ctx.shard);
  }
  for case in ctx.cases(u64::MAX) {
    let mut rng = ctx.rng(case);
    let replay = ctx.replay_info(case);
    let t0 = std::time::Instant::now();
    let class = match rng.below(10) {
      0..=4 => {
        roundtrip_case(&mut rng, rep, &replay, ctx.thorough());
        "roundtrip"
      }
      5 | 6 => {
        totality_case(&mut rng, rep, &replay, ctx.thorough());
        "totality"
      }
      _ => {
        bounded_case(&mut rng, rep, &replay, ctx.thorough());
        "bounded"
      }
    };
    rep.add(&format!("ms_spent_{class}"), t0.elapsed().as_millis() as u64);
  }
}
