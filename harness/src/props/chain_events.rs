//! C37 — replaying the emitted events in order reproduces the index's
//! inscription locations and charms-at-creation, rune entries, mint counts,
//! burned totals and output balances.

use super::{chain::Run, chain_insc::Snapshot};
use crate::report::Report;
use bitcoin::{OutPoint, Txid};
use ord::{InscriptionId, index::event::Event};
use ordinals::{Charm, SatPoint};
use std::{
  collections::{BTreeMap, BTreeSet, HashMap},
  sync::{Arc, Mutex},
};

/// Receiver side of the event channel: a thread drains it into a vector.
pub struct Collector {
  pub events: Arc<Mutex<Vec<Event>>>,
  sender: Option<tokio::sync::mpsc::Sender<Event>>,
  sentinels: std::cell::Cell<u32>,
}

fn sentinel(n: u32) -> Event {
  use bitcoin::hashes::Hash;
  Event::RuneEtched { block_height: u32::MAX, rune_id: ordinals::RuneId { block: u64::MAX, tx: n }, txid: Txid::all_zeros() }
}

impl Collector {
  pub fn new(capacity: usize) -> (Collector, tokio::sync::mpsc::Sender<Event>) {
    let (tx, mut rx) = tokio::sync::mpsc::channel::<Event>(capacity);
    let events = Arc::new(Mutex::new(Vec::new()));
    let sink = events.clone();
    std::thread::spawn(move || {
      while let Some(ev) = rx.blocking_recv() {
        sink.lock().unwrap().push(ev);
      }
    });
    (Collector { events, sender: Some(tx.clone()), sentinels: std::cell::Cell::new(0) }, tx)
  }

  /// Events received so far. `update()` has returned and every send in ord is
  /// blocking, so all its events are in the channel or already drained; a
  /// sentinel pushed through the same FIFO tells when the drain has caught up.
  /// None = the drain thread did not catch up (inconclusive, never a verdict).
  pub fn snapshot(&self) -> Option<Vec<Event>> {
    let n = self.sentinels.get();
    self.sentinels.set(n + 1);
    let mark = sentinel(n);
    self.sender.as_ref()?.blocking_send(mark.clone()).ok()?;
    for _ in 0..30_000 {
      {
        let events = self.events.lock().unwrap();
        if events.iter().rev().take(8).any(|e| *e == mark) {
          return Some(events.iter().filter(|e| !matches!(e, Event::RuneEtched { block_height: u32::MAX, .. })).cloned().collect());
        }
      }
      std::thread::sleep(std::time::Duration::from_millis(1));
    }
    None
  }
}

impl Drop for Collector {
  fn drop(&mut self) {
    // closing our clone lets the drain thread end once the Index is gone too
    self.sender.take();
  }
}

pub fn audit_c37(run: &Run, events: &[Event], snap: Option<&Snapshot>, rep: &mut Report) {
  let h = run.model.height();
  // ---- inscriptions
  let mut location: HashMap<InscriptionId, Option<SatPoint>> = HashMap::new();
  let mut charms: HashMap<InscriptionId, u16> = HashMap::new();
  let mut created_order: Vec<InscriptionId> = Vec::new();
  let mut parents: HashMap<InscriptionId, Vec<InscriptionId>> = HashMap::new();
  let tx_of: HashMap<Txid, &bitcoin::Transaction> = run.model.blocks.iter().flat_map(|b| b.txdata.iter()).map(|t| (t.compute_txid(), t)).collect();
  let is_op_return = |op: &OutPoint| tx_of.get(&op.txid).and_then(|t| t.output.get(op.vout as usize)).is_some_and(|o| o.script_pubkey.is_op_return());
  let mut last_height = 0;
  for ev in events {
    let height = match ev {
      Event::InscriptionCreated { block_height, .. }
      | Event::InscriptionTransferred { block_height, .. }
      | Event::RuneBurned { block_height, .. }
      | Event::RuneEtched { block_height, .. }
      | Event::RuneMinted { block_height, .. }
      | Event::RuneTransferred { block_height, .. } => *block_height,
    };
    if height < last_height {
      rep.violation("C37/events-out-of-block-order", format!("an event for block {height} follows one for block {last_height}"), run.replay.clone());
    }
    last_height = height;
    match ev {
      Event::InscriptionCreated { charms: c, inscription_id, location: loc, parent_inscription_ids, sequence_number, .. } => {
        if location.insert(*inscription_id, *loc).is_some() {
          rep.violation("C37/inscription-created-twice", format!("{inscription_id} created twice in the event stream"), run.replay.clone());
        }
        if *sequence_number as usize != created_order.len() {
          rep.violation("C37/created-events-not-in-sequence-order", format!("{inscription_id} has sequence number {sequence_number} but is creation event #{}", created_order.len()), run.replay.clone());
        }
        charms.insert(*inscription_id, *c);
        created_order.push(*inscription_id);
        parents.insert(*inscription_id, parent_inscription_ids.clone());
      }
      Event::InscriptionTransferred { inscription_id, new_location, old_location, .. } => {
        match location.get(inscription_id) {
          Some(Some(cur)) if cur == old_location => {}
          other => rep.violation(
            "C37/transfer-from-unexpected-location",
            format!("{inscription_id} transferred from {old_location} but the replayed location is {other:?}"),
            run.replay.clone(),
          ),
        }
        location.insert(*inscription_id, Some(*new_location));
        if is_op_return(&new_location.outpoint) {
          *charms.entry(*inscription_id).or_default() |= Charm::Burned.flag();
        }
      }
      _ => {}
    }
  }
  if let Some(snap) = snap {
    rep.eval();
    if created_order.len() != snap.tables.entries.len() {
      rep.violation("C37/created-event-count", format!("height {h}: {} creation events, {} inscriptions indexed", created_order.len(), snap.tables.entries.len()), run.replay.clone());
    }
    for e in &snap.tables.entries {
      rep.eval();
      let sp = snap.satpoint_of.get(&e.sequence_number);
      match location.get(&e.id) {
        None => rep.violation("C37/inscription-without-created-event", format!("height {h}: {} is indexed but was never announced", e.id), run.replay.clone()),
        Some(None) => {
          if sp.map(|sp| sp.outpoint) != Some(ord::unbound_outpoint()) {
            rep.violation("C37/replayed-location-differs", format!("height {h}: {} announced unbound, index location {sp:?}", e.id), run.replay.clone());
          }
        }
        Some(Some(loc)) => {
          if sp != Some(loc) {
            rep.violation("C37/replayed-location-differs", format!("height {h}: {} replays to {loc}, index location {sp:?}", e.id), run.replay.clone());
          }
        }
      }
      if let Some(c) = charms.get(&e.id)
        && *c != e.charms
      {
        rep.violation("C37/replayed-charms-differ", format!("height {h}: {} replays to charms {:?}, index has {:?}", e.id, Charm::charms(*c), Charm::charms(e.charms)), run.replay.clone());
      }
      if let Some(p) = parents.get(&e.id) {
        let want: Vec<InscriptionId> = e.parents.iter().map(|s| snap.tables.entries[*s as usize].id).collect();
        if *p != want {
          rep.violation("C37/replayed-parents-differ", format!("height {h}: {} announced parents {p:?}, index has {want:?}", e.id), run.replay.clone());
        }
      }
    }
    rep.add("inscriptions_replayed", snap.tables.entries.len() as u64);
  }
  // ---- runes
  if run.sc.index.runes {
    let mut by_tx: HashMap<(u32, Txid), Vec<&Event>> = HashMap::new();
    for ev in events {
      match ev {
        Event::RuneBurned { block_height, txid, .. } | Event::RuneEtched { block_height, txid, .. } | Event::RuneMinted { block_height, txid, .. } | Event::RuneTransferred { block_height, txid, .. } => {
          by_tx.entry((*block_height, *txid)).or_default().push(ev)
        }
        _ => {}
      }
    }
    let mut balances: BTreeMap<OutPoint, BTreeMap<(u64, u32), u128>> = BTreeMap::new();
    let mut etched: BTreeSet<(u64, u32)> = BTreeSet::new();
    let mut mints: BTreeMap<(u64, u32), u128> = BTreeMap::new();
    let mut burned: BTreeMap<(u64, u32), u128> = BTreeMap::new();
    for (height, block) in run.model.blocks.iter().enumerate() {
      for tx in &block.txdata {
        for input in &tx.input {
          balances.remove(&input.previous_output);
        }
        let Some(evs) = by_tx.get(&(height as u32, tx.compute_txid())) else { continue };
        for ev in evs {
          match ev {
            Event::RuneEtched { rune_id, .. } => {
              etched.insert((rune_id.block, rune_id.tx));
            }
            Event::RuneMinted { rune_id, .. } => *mints.entry((rune_id.block, rune_id.tx)).or_default() += 1,
            Event::RuneBurned { rune_id, amount, .. } => *burned.entry((rune_id.block, rune_id.tx)).or_default() += *amount,
            Event::RuneTransferred { rune_id, amount, outpoint, .. } => {
              *balances.entry(*outpoint).or_default().entry((rune_id.block, rune_id.tx)).or_default() += *amount;
            }
            _ => {}
          }
        }
      }
    }
    match (run.index.runes(), run.index.get_rune_balances()) {
      (Ok(entries), Ok(index_balances)) => {
        rep.eval();
        let ids: BTreeSet<(u64, u32)> = entries.iter().map(|(id, _)| (id.block, id.tx)).collect();
        if ids != etched {
          rep.violation("C37/replayed-rune-set-differs", format!("height {h}: etched events {etched:?}, rune entries {ids:?}"), run.replay.clone());
        }
        for (id, e) in &entries {
          let k = (id.block, id.tx);
          if mints.get(&k).copied().unwrap_or(0) != e.mints {
            rep.violation("C37/replayed-mints-differ", format!("height {h}: rune {id}: {} mint events, entry counts {}", mints.get(&k).copied().unwrap_or(0), e.mints), run.replay.clone());
          }
          if burned.get(&k).copied().unwrap_or(0) != e.burned {
            rep.violation("C37/replayed-burned-differs", format!("height {h}: rune {id}: burn events total {}, entry has {}", burned.get(&k).copied().unwrap_or(0), e.burned), run.replay.clone());
          }
        }
        let got: BTreeMap<OutPoint, BTreeMap<(u64, u32), u128>> = index_balances.iter().map(|(op, l)| (*op, l.iter().map(|(id, a)| ((id.block, id.tx), *a)).collect())).collect();
        if got != balances {
          let diff: Vec<String> = balances.iter().filter(|(op, b)| got.get(op) != Some(b)).take(3).map(|(op, b)| format!("{op}: replay {b:?} index {:?}", got.get(op))).collect();
          let extra: Vec<String> = got.iter().filter(|(op, _)| !balances.contains_key(op)).take(3).map(|(op, b)| format!("{op}: index {b:?}, replay nothing")).collect();
          rep.violation("C37/replayed-balances-differ", format!("height {h}: {diff:?} {extra:?}"), run.replay.clone());
        }
        rep.add("rune_events_replayed", by_tx.values().map(|v| v.len() as u64).sum());
      }
      _ => rep.inconclusive("rune tables unreadable"),
    }
  }
  rep.add("events_replayed", events.len() as u64);
  rep.count("audits");
}
