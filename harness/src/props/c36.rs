//! C36 — settings precedence: flag > ORD_ env > config file > default; OR
//! for switches; union for hidden lists; derived paths.
//!
//! Oracle: a table-driven reference of the documented precedence. The real
//! `Settings::merge(options, env)` (config via --config / ORD_CONFIG /
//! <config-dir>/ord.yaml) is compared through `serde_json::to_value`.

use crate::{ctx::Ctx, report::{Report, catch}, rng::Rng};
use clap::Parser;
use ord::{options::Options, settings::Settings};
use serde_json::{Map, Value, json};
use std::collections::{BTreeMap, BTreeSet};

#[derive(Clone, Copy, PartialEq, Debug)]
enum Kind {
  Path,
  Str,
  U32,
  Usize,
  U16,
  Bool,
  Chain,
  Hidden,
}

struct Key {
  name: &'static str,
  kind: Kind,
  flag: bool, // settable from the command line
}

const KEYS: &[Key] = &[
  Key { name: "bitcoin_data_dir", kind: Kind::Path, flag: true },
  Key { name: "bitcoin_rpc_limit", kind: Kind::U32, flag: true },
  Key { name: "bitcoin_rpc_password", kind: Kind::Str, flag: true },
  Key { name: "bitcoin_rpc_url", kind: Kind::Str, flag: true },
  Key { name: "bitcoin_rpc_username", kind: Kind::Str, flag: true },
  Key { name: "chain", kind: Kind::Chain, flag: true },
  Key { name: "commit_interval", kind: Kind::Usize, flag: true },
  Key { name: "cookie_file", kind: Kind::Path, flag: true },
  Key { name: "data_dir", kind: Kind::Path, flag: true },
  Key { name: "height_limit", kind: Kind::U32, flag: true },
  Key { name: "hidden", kind: Kind::Hidden, flag: false },
  Key { name: "http_port", kind: Kind::U16, flag: false },
  Key { name: "index", kind: Kind::Path, flag: true },
  Key { name: "index_addresses", kind: Kind::Bool, flag: true },
  Key { name: "index_cache_size", kind: Kind::Usize, flag: true },
  Key { name: "index_runes", kind: Kind::Bool, flag: true },
  Key { name: "index_sats", kind: Kind::Bool, flag: true },
  Key { name: "index_transactions", kind: Kind::Bool, flag: true },
  Key { name: "integration_test", kind: Kind::Bool, flag: true },
  Key { name: "max_savepoints", kind: Kind::Usize, flag: true },
  Key { name: "no_index_inscriptions", kind: Kind::Bool, flag: true },
  Key { name: "savepoint_interval", kind: Kind::Usize, flag: true },
  Key { name: "server_password", kind: Kind::Str, flag: true },
  Key { name: "server_url", kind: Kind::Str, flag: false },
  Key { name: "server_username", kind: Kind::Str, flag: true },
];

const CHAINS: &[&str] = &["mainnet", "regtest", "signet", "testnet", "testnet4"];

fn chain_subdir(chain: &str) -> &'static str {
  match chain {
    "mainnet" => "",
    "regtest" => "regtest",
    "signet" => "signet",
    "testnet" => "testnet3",
    "testnet4" => "testnet4",
    _ => unreachable!(),
  }
}

fn chain_port(chain: &str) -> u16 {
  match chain {
    "mainnet" => 8332,
    "regtest" => 18443,
    "signet" => 38332,
    "testnet" => 18332,
    "testnet4" => 48332,
    _ => unreachable!(),
  }
}

fn join(dir: &str, sub: &str) -> String {
  if sub.is_empty() { dir.to_string() } else { std::path::Path::new(dir).join(sub).to_string_lossy().into_owned() }
}

/// One source's value for one key.
#[derive(Clone, Debug, PartialEq)]
enum Val {
  S(String),
  N(u64),
  B(bool),
  H(BTreeSet<String>),
}

type Source = BTreeMap<&'static str, Val>;

struct Case {
  flags: Source,
  env: Source,
  file: Source,
  chain_spelling: u64,
  config_via: u64, // 0 --config, 1 ORD_CONFIG, 2 --config-dir, 3 ORD_CONFIG_DIR, 4 data-dir/ord.yaml (flag), 5 none
}

fn gen_val(kind: Kind, key: &str, tag: &str, rng: &mut Rng) -> Val {
  match kind {
    Kind::Path => Val::S(format!("/nonexistent/{tag}/{key}-{}", rng.below(1000))),
    Kind::Str => Val::S(format!("{tag}-{key}-{}", rng.below(1000))),
    Kind::U32 => Val::N(rng.below(1 << 31) + 1),
    Kind::Usize => Val::N(rng.below(1 << 40) + 1),
    Kind::U16 => Val::N(rng.below(65535) + 1),
    Kind::Bool => Val::B(true),
    Kind::Chain => Val::S(rng.pick(CHAINS).to_string()),
    Kind::Hidden => {
      let n = rng.usize(0, 3);
      Val::H((0..n).map(|_| format!("{}i{}", hex(&rng.bytes(32)), rng.below(5))).collect())
    }
  }
}

fn hex(b: &[u8]) -> String {
  b.iter().map(|x| format!("{x:02x}")).collect()
}

/// The documented precedence, as a table.
fn reference(case: &Case, default_data_dir: &str, home: &str) -> Map<String, Value> {
  let mut out = Map::new();
  let pick = |name: &str| -> Option<Val> { case.flags.get(name).or(case.env.get(name)).or(case.file.get(name)).cloned() };
  let chain = match pick("chain") {
    Some(Val::S(c)) => c,
    _ => "mainnet".to_string(),
  };
  for key in KEYS {
    let v = pick(key.name);
    let value = match key.kind {
      Kind::Bool => {
        let any = [&case.flags, &case.env, &case.file].iter().any(|s| s.get(key.name) == Some(&Val::B(true)));
        json!(any)
      }
      Kind::Hidden => {
        let mut all = BTreeSet::new();
        for s in [&case.flags, &case.env, &case.file] {
          if let Some(Val::H(h)) = s.get(key.name) {
            all.extend(h.iter().cloned());
          }
        }
        json!(all)
      }
      Kind::Chain => json!(chain),
      _ => match (key.name, v) {
        (_, Some(Val::S(s))) if key.name != "data_dir" => json!(s),
        (_, Some(Val::N(n))) => json!(n),
        ("data_dir", v) => {
          let base = match v {
            Some(Val::S(s)) => s,
            _ => default_data_dir.to_string(),
          };
          json!(join(&base, chain_subdir(&chain)))
        }
        ("bitcoin_data_dir", None) => json!(join(home, ".bitcoin")),
        ("bitcoin_rpc_limit", None) => json!(12),
        ("bitcoin_rpc_url", None) => json!(format!("127.0.0.1:{}", chain_port(&chain))),
        ("commit_interval", None) => json!(5000),
        ("max_savepoints", None) => json!(2),
        ("savepoint_interval", None) => json!(10),
        ("index_cache_size", None) => Value::Null, // machine dependent, masked on both sides
        (_, None) => Value::Null,
        _ => unreachable!(),
      },
    };
    out.insert(key.name.to_string(), value);
  }
  // derived paths
  let bitcoin_data_dir = out["bitcoin_data_dir"].as_str().unwrap().to_string();
  if out["cookie_file"].is_null() {
    out.insert("cookie_file".into(), json!(join(&join(&bitcoin_data_dir, chain_subdir(&chain)), ".cookie")));
  }
  if out["index"].is_null() {
    let data_dir = out["data_dir"].as_str().unwrap().to_string();
    out.insert("index".into(), json!(join(&data_dir, "index.redb")));
  }
  out.insert("config".into(), Value::Null);
  out.insert("config_dir".into(), Value::Null);
  out
}

fn env_name(key: &str) -> String {
  key.to_uppercase()
}

fn val_to_env(v: &Val) -> String {
  match v {
    Val::S(s) => s.clone(),
    Val::N(n) => n.to_string(),
    Val::B(_) => "1".into(),
    Val::H(h) => h.iter().cloned().collect::<Vec<_>>().join(" "),
  }
}

fn val_to_yaml(v: &Val) -> Value {
  match v {
    Val::S(s) => json!(s),
    Val::N(n) => json!(n),
    Val::B(b) => json!(b),
    Val::H(h) => json!(h),
  }
}

fn build_args(case: &Case, config_path: Option<&str>, config_dir: Option<&str>) -> Vec<String> {
  let mut args = vec!["ord".to_string()];
  for (name, v) in &case.flags {
    let flag = format!("--{}", name.replace('_', "-"));
    match (*name, v) {
      ("chain", Val::S(c)) => match (c.as_str(), case.chain_spelling % 3) {
        ("regtest", 0) => args.push("--regtest".into()),
        ("regtest", 1) => args.push("-r".into()),
        ("signet", 0) => args.push("--signet".into()),
        ("signet", 1) => args.push("-s".into()),
        ("testnet", 0) => args.push("--testnet".into()),
        ("testnet", 1) => args.push("-t".into()),
        ("testnet4", 0) | ("testnet4", 1) => args.push("--testnet4".into()),
        ("mainnet", 1) => args.extend(["--chain".into(), "main".into()]),
        ("testnet", _) if case.chain_spelling % 2 == 0 => args.extend(["--chain".into(), "test".into()]),
        _ => args.extend(["--chain".into(), c.clone()]),
      },
      (_, Val::B(true)) => args.push(flag),
      (_, Val::B(false)) => {}
      (_, Val::S(s)) => args.extend([flag, s.clone()]),
      (_, Val::N(n)) => args.extend([flag, n.to_string()]),
      (_, Val::H(_)) => unreachable!(),
    }
  }
  if let Some(p) = config_path {
    args.extend(["--config".into(), p.into()]);
  }
  if let Some(d) = config_dir {
    args.extend(["--config-dir".into(), d.into()]);
  }
  args
}

fn run_case(case: &Case, scratch: &str, idx: u64, rep: &mut Report, replay: &Value) {
  rep.eval();
  // write the config file
  let dir = format!("{scratch}/cfg{}", idx % 64);
  let _ = std::fs::create_dir_all(&dir);
  let mut file_map = Map::new();
  for (k, v) in &case.file {
    file_map.insert(k.to_string(), val_to_yaml(v));
  }
  let have_file = case.config_via != 5;
  let file_path = if case.config_via >= 2 { format!("{dir}/ord.yaml") } else { format!("{dir}/custom-{idx}.yaml") };
  let _ = std::fs::remove_file(format!("{dir}/ord.yaml"));
  if have_file {
    std::fs::write(&file_path, serde_yaml::to_string(&Value::Object(file_map)).unwrap()).unwrap();
  }
  let mut env: BTreeMap<String, String> = case.env.iter().map(|(k, v)| (env_name(k), val_to_env(v))).collect();
  let mut case_flags_data_dir = None;
  let (cfg_flag, cfg_dir_flag) = match case.config_via {
    0 => (Some(file_path.as_str()), None),
    1 => {
      env.insert("CONFIG".into(), file_path.clone());
      (None, None)
    }
    2 => (None, Some(dir.as_str())),
    3 => {
      env.insert("CONFIG_DIR".into(), dir.clone());
      (None, None)
    }
    4 => {
      // found through the data dir (flag): data_dir = dir
      case_flags_data_dir = Some(dir.clone());
      (None, None)
    }
    _ => (None, None),
  };
  let mut case2 = Case { flags: case.flags.clone(), env: case.env.clone(), file: if have_file { case.file.clone() } else { Source::new() }, chain_spelling: case.chain_spelling, config_via: case.config_via };
  if let Some(d) = &case_flags_data_dir {
    case2.flags.insert("data_dir", Val::S(d.clone()));
  }
  let args = build_args(&case2, cfg_flag, cfg_dir_flag);
  let describe = || json!({"args": args, "env": env, "file": case2.file.iter().map(|(k, v)| (k.to_string(), val_to_yaml(v))).collect::<Map<_, _>>(), "config_via": case.config_via});
  let got = catch(|| {
    let options = Options::try_parse_from(&args).map_err(|e| format!("clap: {e}"))?;
    Settings::merge(options, env.clone()).map_err(|e| format!("merge: {e:#}"))
  });
  let settings = match got {
    Err(p) => {
      rep.violation("C36/panic", format!("{p}"), json!({"replay": replay, "case": describe()}));
      return;
    }
    Ok(Err(e)) => {
      rep.violation("C36/unexpected-error", e, json!({"replay": replay, "case": describe()}));
      return;
    }
    Ok(Ok(s)) => s,
  };
  let home = std::env::var("HOME").unwrap_or_default();
  let default_data_dir = Settings::default_data_dir().map(|p| p.to_string_lossy().into_owned()).unwrap_or_default();
  let want = reference(&case2, &default_data_dir, &home);
  let mut got = match serde_json::to_value(&settings) {
    Ok(Value::Object(m)) => m,
    other => {
      rep.violation("C36/serialize", format!("{other:?}"), json!({"replay": replay}));
      return;
    }
  };
  // hidden is a set: compare sorted
  if let Some(Value::Array(a)) = got.get_mut("hidden") {
    a.sort_by_key(|v| v.as_str().unwrap_or("").to_string());
  }
  let mut diffs = Vec::new();
  for key in want.keys() {
    if key == "index_cache_size" && want[key].is_null() {
      continue;
    }
    let g = got.get(key).cloned().unwrap_or(Value::Null);
    if g != want[key] {
      diffs.push(format!("{key}: ord {g} reference {}", want[key]));
    }
  }
  for key in got.keys() {
    if !want.contains_key(key) {
      diffs.push(format!("{key}: unexpected key in settings"));
    }
  }
  let shape: Vec<u8> = KEYS.iter().map(|k| (case2.flags.contains_key(k.name) as u8) | (case2.env.contains_key(k.name) as u8) << 1 | (case2.file.contains_key(k.name) as u8) << 2).collect();
  rep.distinct(&(shape, case.config_via));
  rep.seen("config_via", case.config_via.to_string());
  if diffs.is_empty() {
    rep.count("merge_ok");
  } else {
    let key = diffs[0].split(':').next().unwrap_or("");
    rep.violation(&format!("C36/precedence/{key}"), diffs.join("; "), json!({"replay": replay, "case": describe()}));
  }
  if rep.want_sample() {
    rep.sample(describe());
  }
}

fn paired_ok(src: &mut Source, other_present: bool, a: &'static str, b: &'static str) {
  let _ = (src, other_present, a, b);
}

/// username/password must come in pairs overall, or merge() rejects.
fn fix_pairs(case: &mut Case, rng: &mut Rng) {
  if case.config_via == 5 {
    case.file.clear(); // no config file in this case
  }
  for (u, p) in [("bitcoin_rpc_username", "bitcoin_rpc_password"), ("server_username", "server_password")] {
    let has = |case: &Case, k: &str| case.flags.contains_key(k) || case.env.contains_key(k) || case.file.contains_key(k);
    let (hu, hp) = (has(case, u), has(case, p));
    if hu != hp {
      let missing = if hu { p } else { u };
      let v = Val::S(format!("paired-{missing}-{}", rng.below(1000)));
      match rng.below(if case.config_via == 5 { 2 } else { 3 }) {
        0 => case.flags.insert(missing, v),
        1 => case.env.insert(missing, v),
        _ => case.file.insert(missing, v),
      };
    }
  }
  let _ = paired_ok;
}

pub fn run(ctx: &Ctx, rep: &mut Report) {
  let scratch = if ctx.scratch.is_empty() { std::env::temp_dir().to_string_lossy().into_owned() } else { ctx.scratch.clone() };
  let mut idx = 0u64;
  if ctx.deterministic_part() {
    // every key x every subset of sources, pairwise distinct values, every config route
    let mut rng = ctx.rng(u64::MAX);
    for key in KEYS {
      for subset in 0..8u64 {
        for config_via in 0..=4u64 {
          let mut case = Case { flags: Source::new(), env: Source::new(), file: Source::new(), chain_spelling: subset + config_via, config_via };
          if subset & 1 != 0 && key.flag {
            case.flags.insert(key.name, gen_val(key.kind, key.name, "flag", &mut rng));
          }
          if subset & 2 != 0 {
            case.env.insert(key.name, gen_val(key.kind, key.name, "env", &mut rng));
          }
          if subset & 4 != 0 {
            case.file.insert(key.name, gen_val(key.kind, key.name, "file", &mut rng));
          }
          if config_via == 4 && case.flags.contains_key("data_dir") {
            continue; // the route itself uses --data-dir
          }
          fix_pairs(&mut case, &mut rng);
          idx += 1;
          run_case(&case, &scratch, idx, rep, &ctx.replay_info(u64::MAX));
        }
      }
    }
    // every chain through every spelling
    for chain in CHAINS {
      for spelling in 0..6 {
        let mut case = Case { flags: Source::new(), env: Source::new(), file: Source::new(), chain_spelling: spelling, config_via: 5 };
        case.flags.insert("chain", Val::S(chain.to_string()));
        case.env.insert("chain", Val::S(CHAINS[(spelling as usize + 1) % 5].to_string()));
        idx += 1;
        run_case(&case, &scratch, idx, rep, &ctx.replay_info(u64::MAX));
      }
    }
    rep.count("per_key_subsets_enumerated");
  }
  for c in ctx.cases(u64::MAX) {
    if c == u64::MAX {
      break;
    }
    let mut rng = ctx.rng(c);
    let mut case = Case { flags: Source::new(), env: Source::new(), file: Source::new(), chain_spelling: rng.below(6), config_via: rng.below(6) };
    let density = rng.range(1, 6);
    for key in KEYS {
      if key.flag && rng.chance(density, 8) {
        case.flags.insert(key.name, gen_val(key.kind, key.name, "flag", &mut rng));
      }
      if rng.chance(density, 8) {
        case.env.insert(key.name, gen_val(key.kind, key.name, "env", &mut rng));
      }
      if rng.chance(density, 8) {
        case.file.insert(key.name, gen_val(key.kind, key.name, "file", &mut rng));
      }
    }
    if case.config_via == 4 {
      case.flags.remove("data_dir");
    }
    fix_pairs(&mut case, &mut rng);
    idx += 1;
    run_case(&case, &scratch, idx, rep, &ctx.replay_info(c));
  }
}
