//! Audits of the inscription properties C03–C07 against the real index
//! (quiescent points only). See chain.rs for the driver.

use super::chain::Run;
use crate::report::Report;
use bitcoin::OutPoint;
use ord::{InscriptionId, index::verif::{VerifInscriptionTables, VerifUtxo}};
use ordinals::{Charm, Sat, SatPoint};
use std::collections::{BTreeMap, BTreeSet, HashMap};

pub struct Snapshot {
  pub tables: VerifInscriptionTables,
  pub utxos: Vec<VerifUtxo>,
  pub satpoint_of: HashMap<u32, SatPoint>,
  pub seq_of: HashMap<InscriptionId, u32>,
}

pub fn snapshot(run: &Run, rep: &mut Report) -> Option<Snapshot> {
  let tables = match run.index.verif_inscription_tables() {
    Ok(t) => t,
    Err(e) => {
      rep.inconclusive(format!("verif_inscription_tables failed: {e}"));
      return None;
    }
  };
  let utxos = match run.index.verif_utxos() {
    Ok(t) => t,
    Err(e) => {
      rep.inconclusive(format!("verif_utxos failed: {e}"));
      return None;
    }
  };
  let satpoint_of = tables.satpoints.iter().copied().collect();
  let seq_of = tables.entries.iter().map(|e| (e.id, e.sequence_number)).collect();
  Some(Snapshot { tables, utxos, satpoint_of, seq_of })
}

fn charm(c: Charm, charms: u16) -> bool {
  c.is_set(charms)
}

/// C03 — inscriptions move with their sat.
pub fn audit_c03(run: &Run, snap: &Snapshot, rep: &mut Report) {
  let h = run.model.height();
  let sat_index = run.model.sats.sat_index();
  let sats_on = run.sc.index.sats;
  let mut api_budget = 25;
  for m in &run.model.insc.list {
    rep.eval();
    let Some(seq) = snap.seq_of.get(&m.id) else {
      rep.violation("C03/inscription-missing", format!("height {h}: inscription {} ({}) is not in the index", m.id, m.flags), run.replay.clone());
      continue;
    };
    let e = &snap.tables.entries[*seq as usize];
    let Some(sp) = snap.satpoint_of.get(seq) else {
      rep.violation("C03/no-satpoint", format!("height {h}: inscription {} has no satpoint", m.id), run.replay.clone());
      continue;
    };
    match m.sat {
      None => {
        rep.count("unbound_checked");
        if sp.outpoint != ord::unbound_outpoint() || e.sat.is_some() || !charm(Charm::Unbound, e.charms) {
          rep.violation(
            "C03/unbound-inscription-not-unbound",
            format!("height {h}: {} revealed on a zero-value input or with an unrecognised even field ({}) is at {sp}, sat {:?}, charms {:?}", m.id, m.flags, e.sat, Charm::charms(e.charms)),
            run.replay.clone(),
          );
        }
      }
      Some(s) => {
        let Some((op, off)) = sat_index.locate(s) else {
          rep.inconclusive(format!("reference lost track of sat {s}"));
          continue;
        };
        let expected = SatPoint { outpoint: op, offset: off };
        let class = if op == OutPoint::null() {
          "lost"
        } else if run.model.sats.utxos.get(&op).is_some_and(|o| o.script.is_op_return()) {
          "op-return"
        } else {
          "output"
        };
        rep.count(&format!("bound_checked_{class}"));
        if *sp != expected {
          rep.violation(
            &format!("C03/location-differs/{class}"),
            format!("height {h}: inscription {} (created at {}, {}) is on sat {s} which is now at {expected}, but the index reports {sp}", m.id, m.height, m.flags),
            run.replay.clone(),
          );
        }
        if sp.outpoint == ord::unbound_outpoint() || charm(Charm::Unbound, e.charms) {
          rep.violation("C03/bound-inscription-unbound", format!("height {h}: {} ({}) is bound to sat {s} but reported unbound at {sp}", m.id, m.flags), run.replay.clone());
        }
        if sats_on {
          if e.sat != Some(Sat(s)) {
            rep.violation("C03/sat-differs", format!("height {h}: {} ({}): index sat {:?}, reference sat {s}", m.id, m.flags, e.sat), run.replay.clone());
          }
        } else if e.sat.is_some() {
          rep.violation("C03/sat-without-sat-index", format!("height {h}: {} has sat {:?} although the sat index is off", m.id, e.sat), run.replay.clone());
        }
        if class == "op-return" && !charm(Charm::Burned, e.charms) {
          rep.violation("C03/burned-charm-missing", format!("height {h}: {} sits in OP_RETURN output {op} without the burned charm ({:?})", m.id, Charm::charms(e.charms)), run.replay.clone());
        }
        // the sat index must agree (sampled: find() is linear)
        if sats_on && api_budget > 0 && (class != "output" || m.height + 3 >= h) {
          api_budget -= 1;
          match run.index.find(Sat(s)) {
            Ok(Some(found)) if found == *sp => rep.count("find_agrees"),
            other => rep.violation("C03/sat-index-disagrees", format!("height {h}: {} at {sp} but find({s}) = {other:?}", m.id), run.replay.clone()),
          }
        }
      }
    }
  }
  // public lookup API on the newest inscriptions
  for m in run.model.insc.list.iter().rev().take(15) {
    if let Some(seq) = snap.seq_of.get(&m.id) {
      rep.eval();
      match run.index.get_inscription_satpoint_by_id(m.id) {
        Ok(got) if got == snap.satpoint_of.get(seq).copied() => {}
        other => rep.violation("C03/satpoint-api", format!("height {h}: get_inscription_satpoint_by_id({}) = {other:?}", m.id), run.replay.clone()),
      }
    }
  }
  rep.count("audits");
}

/// C04 — never duplicated or dropped (model-free, plus the envelope count).
pub fn audit_c04(run: &Run, snap: &Snapshot, rep: &mut Report) {
  let h = run.model.height();
  let n = snap.tables.entries.len();
  rep.eval();
  for (i, e) in snap.tables.entries.iter().enumerate() {
    if e.sequence_number as usize != i {
      rep.violation("C04/sequence-numbers-not-dense", format!("height {h}: entry {i} has sequence number {}", e.sequence_number), run.replay.clone());
      break;
    }
  }
  let mut holders: BTreeMap<u32, Vec<(OutPoint, u64)>> = BTreeMap::new();
  for u in &snap.utxos {
    let Some(list) = &u.inscriptions else { continue };
    let special = u.outpoint == OutPoint::null() || u.outpoint == ord::unbound_outpoint();
    for (seq, offset) in list {
      holders.entry(*seq).or_default().push((u.outpoint, *offset));
      if !special && *offset >= u.value {
        rep.violation("C04/offset-beyond-value", format!("height {h}: inscription #{seq} at offset {offset} of {} whose value is {}", u.outpoint, u.value), run.replay.clone());
      }
    }
    if !list.is_empty() {
      rep.count(if u.outpoint == OutPoint::null() { "holder_lost" } else if u.outpoint == ord::unbound_outpoint() { "holder_unbound" } else { "holder_output" });
      rep.max("max_inscriptions_per_output", list.len() as u64);
    }
  }
  for seq in 0..n as u32 {
    rep.eval();
    match holders.get(&seq).map(|v| v.as_slice()) {
      Some([(op, off)]) => {
        let sp = snap.satpoint_of.get(&seq);
        if sp.map(|sp| (sp.outpoint, sp.offset)) != Some((*op, *off)) {
          rep.violation("C04/satpoint-table-disagrees-with-holder", format!("height {h}: inscription #{seq} is listed in {op} at {off} but its satpoint is {sp:?}"), run.replay.clone());
        }
      }
      None => rep.violation("C04/inscription-held-nowhere", format!("height {h}: inscription #{seq} ({}) is listed by no output (satpoint {:?})", snap.tables.entries[seq as usize].id, snap.satpoint_of.get(&seq)), run.replay.clone()),
      Some(many) => rep.violation("C04/inscription-held-twice", format!("height {h}: inscription #{seq} ({}) is listed by {many:?}", snap.tables.entries[seq as usize].id), run.replay.clone()),
    }
  }
  for seq in holders.keys() {
    if *seq as usize >= n {
      rep.violation("C04/unknown-sequence-number-in-output", format!("height {h}: an output lists inscription #{seq} but only {n} exist"), run.replay.clone());
    }
  }
  // per-output listing through the public API (sampled)
  for u in snap.utxos.iter().filter(|u| u.inscriptions.as_ref().is_some_and(|l| !l.is_empty())).take(30) {
    rep.eval();
    let mut want: Vec<(u32, InscriptionId)> = u.inscriptions.as_ref().unwrap().iter().map(|(s, _)| (*s, snap.tables.entries.get(*s as usize).map(|e| e.id).unwrap_or_default())).collect();
    want.sort();
    match run.index.get_inscriptions_for_output(u.outpoint) {
      Ok(Some(got)) if got == want.iter().map(|w| w.1).collect::<Vec<_>>() => {}
      other => rep.violation("C04/output-listing-api", format!("height {h}: get_inscriptions_for_output({}) = {other:?}, entry lists {want:?}", u.outpoint), run.replay.clone()),
    }
  }
  // counts: entries = blessed + cursed = envelopes found by ord's parser
  rep.eval();
  let stat = |k: u64| snap.tables.statistics.iter().find(|(key, _)| *key == k).map(|(_, v)| *v).unwrap_or(0);
  let (blessed, cursed) = (stat(1), stat(3));
  let envelopes: u64 = run.model.insc.list.len() as u64;
  if blessed + cursed != n as u64 || envelopes != n as u64 {
    rep.violation(
      "C04/count-mismatch",
      format!("height {h}: {n} inscription entries, statistics blessed {blessed} + cursed {cursed}, envelopes in non-coinbase transactions {envelopes}"),
      run.replay.clone(),
    );
  }
  rep.add("inscriptions_audited", n as u64);
  rep.count("audits");
}

/// C05 — numbers, sequence numbers and ids dense, unique, consistent.
pub fn audit_c05(run: &Run, snap: &Snapshot, jubilee: u32, rep: &mut Report) {
  let h = run.model.height();
  let entries = &snap.tables.entries;
  let n = entries.len();
  let (mut blessed, mut cursed) = (0i64, 0i64);
  let mut ids = BTreeSet::new();
  for (i, e) in entries.iter().enumerate() {
    rep.eval();
    if e.sequence_number as usize != i {
      rep.violation("C05/sequence-numbers-not-dense", format!("height {h}: entry {i} has sequence number {}", e.sequence_number), run.replay.clone());
    }
    if e.inscription_number >= 0 {
      if i64::from(e.inscription_number) != blessed {
        rep.violation("C05/blessed-numbers-not-dense", format!("height {h}: #{i} {} has number {} but {blessed} non-negative numbers were assigned before", e.id, e.inscription_number), run.replay.clone());
      }
      blessed += 1;
    } else {
      if i64::from(e.inscription_number) != -(cursed + 1) {
        rep.violation("C05/cursed-numbers-not-dense", format!("height {h}: #{i} {} has number {} but {cursed} negative numbers were assigned before", e.id, e.inscription_number), run.replay.clone());
      }
      cursed += 1;
      if e.height >= jubilee {
        rep.violation("C05/negative-number-after-jubilee", format!("height {h}: {} created at {} (jubilee {jubilee}) has number {}", e.id, e.height, e.inscription_number), run.replay.clone());
      }
    }
    if !ids.insert(e.id) {
      rep.violation("C05/duplicate-id", format!("height {h}: id {} appears twice", e.id), run.replay.clone());
    }
    match run.model.insc.envelopes_per_tx.get(&e.id.txid) {
      Some(count) if e.id.index < *count => {}
      other => rep.violation("C05/id-not-an-envelope", format!("height {h}: id {} but its transaction has {other:?} envelopes", e.id), run.replay.clone()),
    }
    if e.height >= jubilee {
      rep.count("created_after_jubilee");
    }
  }
  if cursed > 0 {
    rep.count("audits_with_cursed");
  }
  // ids are exactly (reveal txid, envelope index in input order)
  rep.eval();
  let want_ids: BTreeSet<InscriptionId> = run.model.insc.list.iter().map(|m| m.id).collect();
  if ids != want_ids {
    let missing: Vec<_> = want_ids.difference(&ids).take(3).collect();
    let extra: Vec<_> = ids.difference(&want_ids).take(3).collect();
    rep.violation("C05/id-set-differs", format!("height {h}: ids missing {missing:?}, unexpected {extra:?}"), run.replay.clone());
  }
  // lookup tables are mutually inverse
  rep.eval();
  let id_to_seq: BTreeMap<InscriptionId, u32> = snap.tables.id_to_sequence_number.iter().copied().collect();
  let number_to_seq: BTreeMap<i32, u32> = snap.tables.number_to_sequence_number.iter().copied().collect();
  if id_to_seq.len() != n || number_to_seq.len() != n || snap.tables.id_to_sequence_number.len() != n || snap.tables.number_to_sequence_number.len() != n {
    rep.violation("C05/lookup-table-size", format!("height {h}: {n} entries, {} ids, {} numbers", id_to_seq.len(), number_to_seq.len()), run.replay.clone());
  }
  for e in entries {
    if id_to_seq.get(&e.id) != Some(&e.sequence_number) || number_to_seq.get(&e.inscription_number) != Some(&e.sequence_number) {
      rep.violation(
        "C05/lookups-not-inverse",
        format!("height {h}: entry #{} id {} number {}: id->seq {:?}, number->seq {:?}", e.sequence_number, e.id, e.inscription_number, id_to_seq.get(&e.id), number_to_seq.get(&e.inscription_number)),
        run.replay.clone(),
      );
    }
  }
  for e in entries.iter().rev().take(10) {
    rep.eval();
    match run.index.get_inscription_entry(e.id) {
      Ok(Some(got)) if got == *e => {}
      other => rep.violation("C05/entry-api", format!("height {h}: get_inscription_entry({}) = {other:?}", e.id), run.replay.clone()),
    }
  }
  // per-block listing, and fee-spent reveals numbered last in their block
  let mut by_height: BTreeMap<u32, Vec<&ord::index::verif::InscriptionEntry>> = BTreeMap::new();
  for e in entries {
    by_height.entry(e.height).or_default().push(e);
  }
  let heights: Vec<u32> = by_height.keys().rev().take(8).copied().chain([h.saturating_sub(1), 0]).collect();
  for height in heights {
    rep.eval();
    let want: Vec<InscriptionId> = by_height.get(&height).map(|v| v.iter().map(|e| e.id).collect()).unwrap_or_default();
    match run.index.get_inscriptions_in_block(height) {
      Ok(got) if got == want => {}
      other => rep.violation("C05/block-listing", format!("height {h}: get_inscriptions_in_block({height}) = {other:?}, entries say {want:?}"), run.replay.clone()),
    }
  }
  for (height, idxs) in &run.model.insc.per_height {
    let mut max_plain: Option<u32> = None;
    let mut min_fee: Option<u32> = None;
    for i in idxs {
      let m = &run.model.insc.list[*i];
      let Some(seq) = snap.seq_of.get(&m.id) else { continue };
      if m.fee_spent_at_reveal {
        min_fee = Some(min_fee.map_or(*seq, |x: u32| x.min(*seq)));
      } else {
        max_plain = Some(max_plain.map_or(*seq, |x: u32| x.max(*seq)));
      }
    }
    if let (Some(a), Some(b)) = (max_plain, min_fee) {
      rep.count("blocks_with_fee_spent_and_plain_reveals");
      if b < a {
        rep.violation("C05/fee-spent-reveal-not-numbered-last", format!("height {h}: block {height}: a reveal spent to fees has sequence number {b}, a normal reveal of the same block has {a}"), run.replay.clone());
      }
    }
  }
  rep.add("inscriptions_audited", n as u64);
  rep.count("audits");
}

/// C06 — reinscriptions flagged; clean first inscriptions blessed.
pub fn audit_c06(run: &Run, snap: &Snapshot, rep: &mut Report) {
  let h = run.model.height();
  for m in &run.model.insc.list {
    let Some(seq) = snap.seq_of.get(&m.id) else { continue };
    let e = &snap.tables.entries[*seq as usize];
    rep.eval();
    if m.sat_had_earlier {
      rep.count("reinscriptions_checked");
      if !charm(Charm::Reinscription, e.charms) {
        // which earlier inscription shares the sat?
        let earlier: Vec<_> = run.model.insc.by_sat.get(&m.sat.unwrap()).map(|v| v.iter().map(|i| run.model.insc.list[*i].id).filter(|id| *id != m.id).take(2).collect()).unwrap_or_default();
        let sig = if m.earlier_only_in_later_input { "C06/reinscription-not-flagged/pointer-into-later-input" } else { "C06/reinscription-not-flagged" };
        rep.violation(sig, format!("height {h}: {} ({}) is on sat {:?} which already carried {earlier:?}, but has charms {:?}", m.id, m.flags, m.sat, Charm::charms(e.charms)), run.replay.clone());
      }
    }
    let clean_first = m.input == 0 && m.envelope_in_input == 0 && run.bgen.extra.clean_first.contains(&m.id.txid);
    if clean_first && m.sat.is_some() && !m.sat_had_earlier {
      rep.count("clean_first_checked");
      let bad = charm(Charm::Cursed, e.charms) || charm(Charm::Vindicated, e.charms) || charm(Charm::Reinscription, e.charms) || e.inscription_number < 0;
      if bad {
        rep.violation(
          "C06/clean-first-inscription-not-blessed",
          format!("height {h}: {} is a clean first inscription on a fresh sat ({}), yet number {} charms {:?}", m.id, m.flags, e.inscription_number, Charm::charms(e.charms)),
          run.replay.clone(),
        );
      }
    }
  }
  rep.count("audits");
}

/// C07 — provenance cannot be forged.
pub fn audit_c07(run: &Run, snap: &Snapshot, rep: &mut Report) {
  let h = run.model.height();
  let entries = &snap.tables.entries;
  let mut want_children: BTreeSet<(u32, u32)> = BTreeSet::new();
  for e in entries {
    if e.parents.is_empty() {
      continue;
    }
    rep.eval();
    rep.count("children_checked");
    let m = run.model.insc.by_id.get(&e.id).map(|i| &run.model.insc.list[*i]);
    let mut seen = BTreeSet::new();
    for p in &e.parents {
      want_children.insert((*p, e.sequence_number));
      if !seen.insert(*p) {
        rep.violation("C07/parent-recorded-twice", format!("height {h}: {} lists parent #{p} twice", e.id), run.replay.clone());
      }
      if *p >= e.sequence_number {
        rep.violation("C07/parent-not-older", format!("height {h}: {} (#{}) has parent #{p}", e.id, e.sequence_number), run.replay.clone());
        continue;
      }
      let pid = entries[*p as usize].id;
      if let Some(m) = m
        && !m.eligible_parents.contains(&pid)
      {
        rep.violation(
          "C07/parent-not-spent-or-revealed-by-child",
          format!("height {h}: {} records parent {pid}, which was neither held by its reveal's inputs nor revealed by it (claimed {:?})", e.id, m.claimed_parents),
          run.replay.clone(),
        );
      }
    }
    rep.max("max_parents_per_child", e.parents.len() as u64);
  }
  // the children view is the exact inverse of the parents view
  rep.eval();
  let got_children: BTreeSet<(u32, u32)> = snap.tables.children.iter().copied().collect();
  if got_children != want_children || got_children.len() != snap.tables.children.len() {
    let missing: Vec<_> = want_children.difference(&got_children).take(3).collect();
    let extra: Vec<_> = got_children.difference(&want_children).take(3).collect();
    rep.violation("C07/children-not-inverse-of-parents", format!("height {h}: missing {missing:?}, extra {extra:?}"), run.replay.clone());
  }
  let mut by_parent: BTreeMap<u32, Vec<u32>> = BTreeMap::new();
  for (p, c) in &want_children {
    by_parent.entry(*p).or_default().push(*c);
  }
  // paginated views (every page), on a sample of parents and children
  for (p, kids) in by_parent.iter().rev().take(6) {
    rep.eval();
    for page_size in [1usize, 2, 100] {
      let mut all = Vec::new();
      let mut page = 0;
      loop {
        match run.index.get_children_by_sequence_number_paginated(*p, page_size, page) {
          Ok((ids, more)) => {
            all.extend(ids);
            if !more {
              break;
            }
          }
          Err(e) => {
            rep.violation("C07/children-api-error", format!("{e}"), run.replay.clone());
            break;
          }
        }
        page += 1;
        if page > 10_000 {
          break;
        }
      }
      let want: Vec<InscriptionId> = kids.iter().map(|c| entries[*c as usize].id).collect();
      if all != want {
        rep.violation("C07/children-pages", format!("height {h}: children of #{p} with page size {page_size}: {all:?}, expected {want:?}"), run.replay.clone());
      }
    }
    rep.max("max_children_per_parent", kids.len() as u64);
  }
  for e in entries.iter().rev().filter(|e| !e.parents.is_empty()).take(6) {
    rep.eval();
    let want: Vec<InscriptionId> = e.parents.iter().map(|p| entries[*p as usize].id).collect();
    for page_size in [1usize, 100] {
      let mut all = Vec::new();
      let mut page = 0;
      loop {
        match run.index.get_parents_by_sequence_number_paginated(e.parents.clone(), page_size, page) {
          Ok((ids, more)) => {
            all.extend(ids);
            if !more {
              break;
            }
          }
          Err(err) => {
            rep.violation("C07/parents-api-error", format!("{err}"), run.replay.clone());
            break;
          }
        }
        page += 1;
        if page > 10_000 {
          break;
        }
      }
      if all != want {
        rep.violation("C07/parents-pages", format!("height {h}: parents of {} with page size {page_size}: {all:?}, expected {want:?}", e.id), run.replay.clone());
      }
    }
  }
  // collections: latest child of every visible parent
  rep.eval();
  let latest: BTreeMap<u32, u32> = snap.tables.collection_to_latest_child.iter().copied().collect();
  let mut want_latest: BTreeMap<u32, u32> = BTreeMap::new();
  for (p, kids) in &by_parent {
    if !entries[*p as usize].hidden {
      want_latest.insert(*p, *kids.iter().max().unwrap());
      rep.count("visible_collections_checked");
    }
  }
  if latest != want_latest {
    let diff: Vec<_> = want_latest.iter().filter(|(p, c)| latest.get(p) != Some(c)).take(3).collect();
    let extra: Vec<_> = latest.iter().filter(|(p, _)| !want_latest.contains_key(p)).take(3).collect();
    rep.violation("C07/latest-child-wrong", format!("height {h}: expected (collection, latest child) {diff:?}; unexpected collections {extra:?}"), run.replay.clone());
  }
  let inverse: BTreeSet<(u32, u32)> = snap.tables.latest_child_to_collection.iter().copied().collect();
  let want_inverse: BTreeSet<(u32, u32)> = want_latest.iter().map(|(p, c)| (*c, *p)).collect();
  if inverse != want_inverse {
    rep.violation("C07/latest-child-index-not-inverse", format!("height {h}: latest-child index {:?} vs {:?}", inverse.iter().take(4).collect::<Vec<_>>(), want_inverse.iter().take(4).collect::<Vec<_>>()), run.replay.clone());
  }
  // collections listing is ordered by most recent child
  if !want_latest.is_empty() {
    rep.eval();
    let mut order: Vec<(u32, u32)> = want_latest.iter().map(|(p, c)| (*c, *p)).collect();
    order.sort_by(|a, b| b.0.cmp(&a.0));
    let mut all = Vec::new();
    let mut page = 0;
    loop {
      match run.index.get_collections_paginated(3, page) {
        Ok((ids, more)) => {
          all.extend(ids);
          if !more {
            break;
          }
        }
        Err(e) => {
          rep.violation("C07/collections-api-error", format!("{e}"), run.replay.clone());
          break;
        }
      }
      page += 1;
      if page > 10_000 {
        break;
      }
    }
    // collections sharing a latest child may come in any order among themselves
    let got_keys: Vec<u32> = all.iter().map(|id| want_latest.get(snap.seq_of.get(id).unwrap_or(&u32::MAX)).copied().unwrap_or(u32::MAX)).collect();
    let want_keys: Vec<u32> = order.iter().map(|(c, _)| *c).collect();
    let got_set: BTreeSet<InscriptionId> = all.iter().copied().collect();
    let want_set: BTreeSet<InscriptionId> = order.iter().map(|(_, p)| entries[*p as usize].id).collect();
    if got_keys != want_keys || got_set != want_set || got_set.len() != all.len() {
      rep.violation("C07/collections-order", format!("height {h}: collections listed with latest children {got_keys:?}, expected {want_keys:?}"), run.replay.clone());
    }
  }
  rep.count("audits");
}
