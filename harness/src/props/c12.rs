//! C12 — index content does not depend on how indexing was scheduled.
//!
//! One pre-built chain is indexed under many schedules (commit interval,
//! partition of the blocks into update() calls, close/reopen between calls,
//! savepoint parameters, and concurrent update() callers with injected delays
//! between commit and the next begin_write). Oracle: pairwise equality of the
//! masked canonical dump (hook H2) with the "every block, interval 1" run.

use crate::{
  blockgen::GenCfg,
  chainbuild::{BuiltChain, build_chain},
  ctx::Ctx,
  dump::{Dump, diff, differing_tables, duplicated_coinbase_txids, masked_dump, only_displaced_duplicate_rows},
  hooks::Hooks,
  idx::IndexCfg,
  node::Node,
  report::{Report, catch, panic_signature},
  rng::Rng,
};
use bitcoin::Network;
use serde_json::json;
use std::sync::{Arc, atomic::{AtomicBool, Ordering}};

#[derive(Clone, Debug)]
pub struct Schedule {
  pub commit_interval: usize,
  /// sizes of the chunks of blocks revealed before each update() call
  pub chunks: Vec<usize>,
  pub reopen_permille: u64,
  pub savepoint_interval: usize,
  pub max_savepoints: usize,
  pub threads: usize,
  pub delay_ms: u64,
}

impl Schedule {
  pub fn label(&self) -> String {
    format!(
      "ci{}/calls{}/reopen{}/sp{}x{}/threads{}/delay{}",
      self.commit_interval,
      self.chunks.len(),
      self.reopen_permille,
      self.savepoint_interval,
      self.max_savepoints,
      self.threads,
      self.delay_ms
    )
  }
}

fn partition(rng: &mut Rng, n: usize, style: u64) -> Vec<usize> {
  match style {
    0 => vec![1; n],
    1 => vec![n],
    _ => {
      let mut out = Vec::new();
      let mut left = n;
      while left > 0 {
        let c = match rng.below(4) {
          0 => 1,
          1 => rng.usize(1, 3),
          _ => rng.usize(1, 25),
        }
        .min(left);
        out.push(c);
        left -= c;
      }
      out
    }
  }
}

pub fn gen_schedule(rng: &mut Rng, n_blocks: usize, concurrent: bool) -> Schedule {
  let style = rng.below(5);
  Schedule {
    commit_interval: *rng.pick(&[1usize, 2, 3, 5, 17, 5000]),
    chunks: partition(rng, n_blocks, style),
    reopen_permille: *rng.pick(&[0u64, 0, 100, 500, 1000]),
    savepoint_interval: *rng.pick(&[1usize, 3, 10, 10, 1000]),
    max_savepoints: *rng.pick(&[1usize, 2, 2, 3]),
    threads: if concurrent { rng.usize(2, 3) } else { 1 },
    delay_ms: if concurrent { *rng.pick(&[0u64, 1, 3]) } else { 0 },
  }
}

pub struct Outcome {
  pub dump: Dump,
  pub yields: u64,
  pub commits: u64,
  pub savepoints: u64,
}

/// Index `chain` under `schedule` in `dir` and return the final masked dump.
pub fn run_schedule(chain: &BuiltChain, base: &IndexCfg, schedule: &Schedule, dir: &std::path::Path, hooks: &Hooks, rng: &mut Rng) -> Result<Outcome, String> {
  let _ = std::fs::remove_dir_all(dir);
  std::fs::create_dir_all(dir).map_err(|e| e.to_string())?;
  let mut node = Node::new(chain.network);
  let cfg = IndexCfg {
    commit_interval: Some(schedule.commit_interval),
    savepoint_interval: Some(schedule.savepoint_interval),
    max_savepoints: Some(schedule.max_savepoints),
    ..base.clone()
  };
  hooks.reset_counts();
  hooks.configure(|st| {
    st.sleeps = if schedule.delay_ms > 0 { vec![("commit.end".to_string(), schedule.delay_ms)] } else { Vec::new() };
  });
  let total = chain.blocks.len() as u32 + 1;
  if schedule.threads <= 1 {
    let mut index = Some(cfg.open(&node, dir).map_err(|e| format!("open: {e:#}"))?);
    let mut fed = 0usize;
    for c in &schedule.chunks {
      for b in &chain.blocks[fed..fed + c] {
        node.push_existing(b);
      }
      fed += c;
      if rng.below(1000) < schedule.reopen_permille {
        index = None; // close
        index = Some(cfg.open(&node, dir).map_err(|e| format!("reopen: {e:#}"))?);
      }
      match catch(|| index.as_ref().unwrap().update()) {
        Ok(Ok(())) => {}
        Ok(Err(e)) => return Err(format!("update() at {fed} blocks: {e:#}")),
        Err(p) => return Err(format!("update() panicked at {fed} blocks: {p}")),
      }
    }
    let index = index.unwrap();
    let count = index.block_count().map_err(|e| e.to_string())?;
    if count != total {
      return Err(format!("index has {count} blocks after the last update, chain has {total}"));
    }
    let dump = masked_dump(&index).map_err(|e| e.to_string())?;
    Ok(Outcome { dump, yields: hooks.count("update.yield"), commits: hooks.count("commit.start"), savepoints: hooks.count("savepoint.created") })
  } else {
    let index = Arc::new(cfg.open(&node, dir).map_err(|e| format!("open: {e:#}"))?);
    let stop = Arc::new(AtomicBool::new(false));
    let mut workers = Vec::new();
    for _ in 0..schedule.threads {
      let index = index.clone();
      let stop = stop.clone();
      workers.push(std::thread::spawn(move || -> Result<u64, String> {
        let mut calls = 0;
        while !stop.load(Ordering::SeqCst) {
          match std::panic::catch_unwind(std::panic::AssertUnwindSafe(|| index.update())) {
            Ok(Ok(())) => calls += 1,
            Ok(Err(e)) => return Err(format!("concurrent update(): {e:#}")),
            Err(p) => return Err(format!("concurrent update() panicked: {}", crate::report::payload_message(p.as_ref()))),
          }
          std::thread::sleep(std::time::Duration::from_micros(200));
        }
        Ok(calls)
      }));
    }
    let mut fed = 0usize;
    for c in &schedule.chunks {
      for b in &chain.blocks[fed..fed + c] {
        node.push_existing(b);
      }
      fed += c;
      std::thread::sleep(std::time::Duration::from_micros(300 * (*c as u64).min(10)));
    }
    // let the callers catch up (logical condition; generous wall-clock guard)
    let t0 = std::time::Instant::now();
    loop {
      if index.block_count().map_err(|e| e.to_string())? == total {
        break;
      }
      if workers.iter().all(|w| w.is_finished()) {
        break;
      }
      if t0.elapsed().as_secs() > 120 {
        stop.store(true, Ordering::SeqCst);
        return Err("WATCHDOG: concurrent callers did not reach the tip in 120 s".into());
      }
      std::thread::sleep(std::time::Duration::from_millis(2));
    }
    stop.store(true, Ordering::SeqCst);
    let mut errs = Vec::new();
    for w in workers {
      match w.join() {
        Ok(Ok(_)) => {}
        Ok(Err(e)) => errs.push(e),
        Err(_) => errs.push("worker thread panicked".into()),
      }
    }
    if let Some(e) = errs.into_iter().next() {
      return Err(e);
    }
    // one last quiet update, as a user would do
    match catch(|| index.update()) {
      Ok(Ok(())) => {}
      Ok(Err(e)) => return Err(format!("final update(): {e:#}")),
      Err(p) => return Err(format!("final update() panicked: {p}")),
    }
    let count = index.block_count().map_err(|e| e.to_string())?;
    if count != total {
      return Err(format!("index has {count} blocks after the concurrent run, chain has {total}"));
    }
    let dump = masked_dump(&index).map_err(|e| e.to_string())?;
    Ok(Outcome { dump, yields: hooks.count("update.yield"), commits: hooks.count("commit.start"), savepoints: hooks.count("savepoint.created") })
  }
}

pub fn chain_for(rng: &mut Rng, thorough: bool) -> (GenCfg, u32, IndexCfg) {
  let mut gencfg = GenCfg::default();
  let sat_only = rng.chance(1, 5);
  let mut base = IndexCfg::all();
  if sat_only {
    // sat scenarios with duplicate txids
    gencfg.dup_coinbase_permille = 60;
    base.inscriptions = false;
    base.runes = false;
  } else {
    gencfg.w_transfer = 5;
    gencfg.w_reveal = 4;
    gencfg.w_rune = 4;
    if rng.chance(1, 4) {
      // a random subset of the optional indexes
      let bits = rng.below(8) as u32;
      base.sats = bits & 1 != 0;
      base.addresses = bits & 2 != 0;
      base.transactions = bits & 4 != 0;
    }
  }
  gencfg.max_txs = *rng.pick(&[3usize, 6]);
  let mut blocks = if thorough { rng.range(60, 250) } else { rng.range(40, 100) } as u32;
  // a quarter of the inscription chains cross the regtest jubilee height (110):
  // the curse/vindication rule changes there, whatever the batching
  if !sat_only && rng.chance(1, 4) {
    blocks = blocks.max(rng.range(113, 135) as u32);
  }
  (gencfg, blocks, base)
}

pub fn run(ctx: &Ctx, rep: &mut Report) {
  let hooks = Hooks::install();
  let scratch = if ctx.scratch.is_empty() { "/tmp/verif-scratch".to_string() } else { ctx.scratch.clone() };
  for case in ctx.cases(u64::MAX) {
    let mut rng = ctx.rng(case);
    let (gencfg, n_blocks, base) = chain_for(&mut rng, ctx.thorough());
    let chain = build_chain(&mut rng, Network::Regtest, &gencfg, n_blocks);
    let replay = ctx.replay_info(case);
    let dup_txids = duplicated_coinbase_txids(&chain.blocks);
    if !dup_txids.is_empty() {
      rep.count("chains_with_duplicate_txids");
    }
    let dir = std::path::PathBuf::from(format!("{scratch}/c12-{case}"));
    // reference: every block, commit interval 1, defaults otherwise
    let reference_schedule = Schedule { commit_interval: 1, chunks: vec![1; chain.blocks.len()], reopen_permille: 0, savepoint_interval: 10, max_savepoints: 2, threads: 1, delay_ms: 0 };
    let reference = match run_schedule(&chain, &base, &reference_schedule, &dir.join("ref"), &hooks, &mut rng) {
      Ok(o) => o,
      Err(e) => {
        rep.violation("C12/reference-schedule-failed", e, json!({"replay": replay, "schedule": reference_schedule.label()}));
        let _ = std::fs::remove_dir_all(&dir);
        continue;
      }
    };
    rep.seen("index_configs", base.label());
    let n_schedules = if ctx.thorough() { 14 } else { 7 };
    for s in 0..n_schedules {
      let concurrent = s % 4 == 3;
      let schedule = gen_schedule(&mut rng, chain.blocks.len(), concurrent);
      rep.eval();
      rep.distinct(&(
        schedule.commit_interval,
        schedule.chunks.len().min(30),
        schedule.reopen_permille,
        schedule.savepoint_interval,
        schedule.max_savepoints,
        schedule.threads,
        schedule.delay_ms,
        base.label(),
      ));
      let rp = json!({"replay": replay, "schedule": schedule.label(), "schedule_index": s, "index": base.label(), "blocks": chain.blocks.len()});
      match run_schedule(&chain, &base, &schedule, &dir.join(format!("s{s}")), &hooks, &mut rng) {
        Ok(o) => {
          rep.add("update_yielded_to_another_update", o.yields);
          rep.add("commits", o.commits);
          rep.add("savepoints_created", o.savepoints);
          if concurrent {
            rep.count("concurrent_schedules");
          }
          if schedule.reopen_permille > 0 {
            rep.count("schedules_with_reopen");
          }
          if o.dump != reference.dump {
            let tables = differing_tables(&reference.dump, &o.dump);
            let signature = if only_displaced_duplicate_rows(&reference.dump, &o.dump, &dup_txids) {
              rep.count("schedules_differing_only_in_displaced_duplicate_entries");
              "C12/dump-differs/displaced-duplicate-txid-entry".to_string()
            } else {
              format!("C12/dump-differs/{}", tables.join("+"))
            };
            rep.violation(
              &signature,
              format!("schedule {} vs every-block/interval-1 on a chain of {} blocks ({}): {}", schedule.label(), chain.blocks.len(), base.label(), diff(&reference.dump, &o.dump, "reference", "schedule")),
              rp,
            );
          } else {
            rep.count("schedules_equal");
          }
          if rep.want_sample() {
            rep.sample(json!({"schedule": schedule.label(), "index": base.label(), "blocks": chain.blocks.len(), "dump_rows": o.dump.len(), "yields": o.yields, "commits": o.commits, "savepoints": o.savepoints}));
          }
        }
        Err(e) if e.starts_with("WATCHDOG") => rep.inconclusive(e),
        Err(e) => {
          let sig = if e.contains("panicked") { format!("C12/update-panic/{}", panic_signature(&e)) } else { "C12/update-error".to_string() };
          rep.violation(&sig, format!("schedule {}: {e}", schedule.label()), rp);
        }
      }
      let _ = std::fs::remove_dir_all(dir.join(format!("s{s}")));
    }
    let _ = std::fs::remove_dir_all(&dir);
  }
}
