//! C19 — inscription content is served faithfully and sandboxed.
//!
//! A chain of reveals built from known field values (content types of every
//! kind, encodings, bodies carrying a random marker, delegates to existing /
//! missing / delegating / hidden inscriptions, reinscriptions on one sat) is
//! indexed and served by the real server under each configuration of
//! {csp origin} x {decompress} x {hidden list}. Every content-serving route
//! is requested with several `Accept-Encoding` values through a raw HTTP
//! client; status, body, `Content-Type`, `Content-Encoding`, `Cache-Control`
//! and the Content-Security-Policy headers (evaluated by a small CSP source
//! matcher over a battery of URLs) are compared with the reference.

use crate::{
  blockgen::{Gen, GenCfg},
  ctx::Ctx,
  explorer::{Explorer, Response},
  gen_insc::{brotli_compress, id_value},
  idx::IndexCfg,
  model::Model,
  node::Node,
  report::Report,
  rng::Rng,
};
use bitcoin::{Amount, Network, OutPoint, TxOut, Witness, hashes::Hash, script};
use ord::{Inscription, InscriptionId};
use serde_json::json;
use std::{collections::BTreeSet, io::Read};

#[derive(Clone, Debug)]
struct Spec {
  id: InscriptionId,
  content_type: Option<Vec<u8>>,
  encoding: Option<Vec<u8>>,
  /// bytes stored in the envelope
  body: Option<Vec<u8>>,
  /// what the body decompresses to, when it is valid brotli
  plain: Option<Vec<u8>>,
  marker: Vec<u8>,
  delegate: Option<InscriptionId>,
}

fn gen_content_type(rng: &mut Rng) -> Option<Vec<u8>> {
  Some(match rng.below(16) {
    0 => return None,
    1 => b"text/html;charset=utf-8".to_vec(),
    2 => b"image/svg+xml".to_vec(),
    3 => b"text/plain;charset=utf-8".to_vec(),
    4 => b"application/json".to_vec(),
    5 => b"image/png".to_vec(),
    6 => b"text/javascript".to_vec(),
    7 => b"application/octet-stream".to_vec(),
    8 => b"model/gltf-binary".to_vec(),
    9 => b"x-unknown/type; param=\"q\"".to_vec(),
    10 => "text/plain;name=é名".as_bytes().to_vec(), // non-ASCII header value
    11 => b"text/html\r\nX-Injected: 1".to_vec(),     // not a legal header value
    12 => vec![0xff, 0xfe, b'a'],                    // not UTF-8
    13 => b"text/\x7fdel".to_vec(),                   // DEL is not allowed in a header value
    14 => b"  text/markdown ".to_vec(),
    _ => {
      let n = rng.usize(1, 30);
      (0..n).map(|_| 33 + rng.below(94) as u8).collect()
    }
  })
}

/// Content-Type that must be sent for stored bytes: the bytes themselves when
/// they form a legal header value, else application/octet-stream.
fn expected_content_type(stored: &Option<Vec<u8>>) -> Vec<u8> {
  let fallback = b"application/octet-stream".to_vec();
  let Some(bytes) = stored else { return fallback };
  if std::str::from_utf8(bytes).is_err() {
    return fallback;
  }
  if bytes.iter().all(|b| (*b >= 32 && *b != 127) || *b == b'\t') {
    bytes.clone()
  } else {
    fallback
  }
}

fn trim(b: &[u8]) -> &[u8] {
  let s = b.iter().position(|c| !c.is_ascii_whitespace()).unwrap_or(b.len());
  let e = b.iter().rposition(|c| !c.is_ascii_whitespace()).map(|p| p + 1).unwrap_or(s);
  &b[s..e]
}

fn contains(hay: &[u8], needle: &[u8]) -> bool {
  !needle.is_empty() && hay.len() >= needle.len() && hay.windows(needle.len()).any(|w| w == needle)
}

fn unbrotli(data: &[u8]) -> Option<Vec<u8>> {
  let mut out = Vec::new();
  brotli::Decompressor::new(data, 4096).read_to_end(&mut out).ok()?;
  Some(out)
}

fn ungzip(data: &[u8]) -> Option<Vec<u8>> {
  let mut out = Vec::new();
  flate2::read::GzDecoder::new(data).read_to_end(&mut out).ok()?;
  Some(out)
}

// ------------------------------------------------------------------- CSP

#[derive(Debug)]
struct Url {
  scheme: String,
  host: String,
  port: u16,
  path: String,
}

fn parse_url(u: &str) -> Url {
  if let Some(rest) = u.strip_prefix("data:") {
    return Url { scheme: "data".into(), host: String::new(), port: 0, path: rest.into() };
  }
  if let Some(rest) = u.strip_prefix("blob:") {
    return Url { scheme: "blob".into(), host: String::new(), port: 0, path: rest.into() };
  }
  let (scheme, rest) = u.split_once("://").unwrap();
  let (authority, path) = match rest.find('/') {
    Some(i) => (&rest[..i], &rest[i..]),
    None => (rest, "/"),
  };
  let (host, port) = match authority.rsplit_once(':') {
    Some((h, p)) => (h.to_string(), p.parse().unwrap()),
    None => (authority.to_string(), if scheme == "https" { 443 } else { 80 }),
  };
  Url { scheme: scheme.into(), host, port, path: path.into() }
}

/// Does one CSP source expression admit `url` for a document at `page`?
fn source_matches(source: &str, url: &Url, page: &Url) -> bool {
  match source {
    "'self'" => return url.scheme == page.scheme && url.host == page.host && url.port == page.port,
    "*" => return matches!(url.scheme.as_str(), "http" | "https"),
    s if s.starts_with('\'') => return false, // keywords ('unsafe-inline', ...) admit no URL
    _ => {}
  }
  if let Some(scheme) = source.strip_suffix(':')
    && !scheme.contains('/')
    && !scheme.contains('*')
  {
    return url.scheme == scheme; // scheme-source (data:, blob:, https:)
  }
  if !matches!(url.scheme.as_str(), "http" | "https") {
    return false;
  }
  // host-source: [scheme://]host[:port][/path]
  let (scheme, rest) = match source.split_once("://") {
    Some((s, r)) => (Some(s), r),
    None => (None, source),
  };
  match scheme {
    Some(s) => {
      if !(url.scheme == s || (s == "http" && url.scheme == "https")) {
        return false;
      }
    }
    None => {
      // no scheme: the page's scheme, or an upgrade from http to https
      if !(url.scheme == page.scheme || (page.scheme == "http" && url.scheme == "https")) {
        return false;
      }
    }
  }
  let (authority, path) = match rest.find('/') {
    Some(i) => (&rest[..i], Some(&rest[i..])),
    None => (rest, None),
  };
  let (host, port) = match authority.rsplit_once(':') {
    Some((h, p)) => (h, Some(p)),
    None => (authority, None),
  };
  let host_ok = if host == "*" {
    true
  } else if let Some(suffix) = host.strip_prefix("*.") {
    url.host.ends_with(&format!(".{suffix}"))
  } else {
    url.host.eq_ignore_ascii_case(host)
  };
  if !host_ok {
    return false;
  }
  let port_ok = match port {
    Some("*") => true,
    Some(p) => p.parse::<u16>().ok() == Some(url.port),
    None => {
      let default = |s: &str| if s == "https" { 443 } else { 80 };
      url.port == default(&url.scheme) || Some(url.port) == scheme.map(default)
    }
  };
  if !port_ok {
    return false;
  }
  match path {
    None => true,
    Some(p) if p.ends_with('/') => url.path.starts_with(p),
    Some(p) => url.path == p,
  }
}

/// One policy (one header value): the directive that governs fetches.
fn policy_allows(policy: &str, url: &Url, page: &Url) -> bool {
  let mut default_src: Option<Vec<&str>> = None;
  for directive in policy.split(';') {
    let mut parts = directive.split_whitespace();
    if let Some(name) = parts.next()
      && name.eq_ignore_ascii_case("default-src")
    {
      default_src = Some(parts.collect());
    }
  }
  match default_src {
    None => true, // no default-src: this policy does not restrict fetches
    Some(sources) => sources.iter().any(|s| source_matches(s, url, page)),
  }
}

fn allowed(policies: &[&str], url: &str, page: &Url) -> bool {
  let url = parse_url(url);
  policies.iter().all(|p| policy_allows(p, &url, page))
}

/// Battery: (url, must be allowed?) for inscription content shown at `page`
/// when content may load from `origin`.
fn battery(origin: &str, id: &InscriptionId) -> Vec<(String, bool)> {
  vec![
    (format!("{origin}/content/{id}"), true),
    (format!("{origin}/r/blockheight"), true),
    (format!("{origin}/r/sat/1/at/-1"), true),
    (format!("{origin}/r/inscription/{id}"), true),
    (format!("{origin}/blockheight"), true),
    (format!("{origin}/blockhash"), true),
    (format!("{origin}/blockhash/5"), true),
    (format!("{origin}/blocktime"), true),
    ("data:text/plain,hello".into(), true),
    ("blob:abcd".into(), true),
    ("https://evil.example/x.js".into(), false),
    ("http://evil.example/x.js".into(), false),
    ("https://evil.example/content/x".into(), false),
    ("https://evil.example:8443/r/x".into(), false),
    ("https://evil.example/blockheight".into(), false),
    ("https://cdn.jsdelivr.net/npm/x.js".into(), false),
    ("http://127.0.0.1:1/content/x".into(), false),
  ]
}

// ------------------------------------------------------------ expectations

#[derive(Debug)]
enum Expect {
  /// hidden: whatever is answered must not carry the bytes
  Withheld(&'static str),
  /// no such inscription / delegate / body
  Missing,
  NotAcceptable,
  /// brotli that cannot be decoded while decompression is on
  Undecodable,
  Served { content_type: Vec<u8>, encoding: Option<Vec<u8>>, body: Vec<u8> },
}

fn acceptable(accept: Option<&str>, encoding: &[u8]) -> bool {
  let Some(accept) = accept else { return false };
  accept.split(',').any(|v| v.split(';').next().unwrap_or("").trim().as_bytes() == encoding)
}

struct Conf {
  decompress: bool,
  hidden: BTreeSet<InscriptionId>,
  origin: Option<String>,
}

fn expect(specs: &[Spec], x: &Spec, follow_delegate: bool, accept: Option<&str>, conf: &Conf) -> Expect {
  if conf.hidden.contains(&x.id) {
    return Expect::Withheld("requested inscription is hidden");
  }
  let mut e = x;
  if follow_delegate
    && let Some(d) = x.delegate
  {
    match specs.iter().find(|s| s.id == d) {
      None => return Expect::Missing,
      Some(target) => {
        if conf.hidden.contains(&target.id) {
          return Expect::Withheld("delegate is hidden");
        }
        e = target;
      }
    }
  }
  let Some(body) = &e.body else { return Expect::Missing };
  let content_type = expected_content_type(&e.content_type);
  let encoding = e.encoding.as_ref();
  match encoding {
    None => Expect::Served { content_type, encoding: None, body: body.clone() },
    Some(enc) if acceptable(accept, enc) => Expect::Served { content_type, encoding: Some(enc.clone()), body: body.clone() },
    Some(enc) if conf.decompress && enc == b"br" => match &e.plain {
      Some(plain) => Expect::Served { content_type, encoding: None, body: plain.clone() },
      None => Expect::Undecodable,
    },
    Some(_) => Expect::NotAcceptable,
  }
}

struct Judge<'a> {
  specs: &'a [Spec],
  conf: &'a Conf,
  page: Url,
  bad: Vec<(String, String)>,
}

impl Judge<'_> {
  /// Checks that apply to every response of every route.
  fn every(&mut self, route: &str, r: &Response, rep: &mut Report) {
    rep.eval();
    let csp = r.headers_named("content-security-policy");
    if csp.is_empty() {
      self.bad.push((format!("no-csp-header/status-{}", r.status), format!("{route}: status {} without Content-Security-Policy; headers {:?}", r.status, r.headers.iter().map(|(k, _)| k.as_str()).collect::<Vec<_>>())));
    } else {
      rep.count("responses_with_csp");
      rep.seen("status_codes_seen", r.status.to_string());
    }
    // nothing of a hidden inscription may appear anywhere
    for h in self.specs.iter().filter(|s| self.conf.hidden.contains(&s.id)) {
      let leaked = contains(&r.body, &h.marker) || h.body.as_ref().is_some_and(|b| b.len() >= 12 && contains(&r.body, b));
      let transported = match r.header("content-encoding") {
        Some("br") => unbrotli(&r.body),
        Some("gzip") => ungzip(&r.body),
        _ => None,
      };
      let leaked = leaked || transported.is_some_and(|t| contains(&t, &h.marker));
      if leaked {
        self.bad.push(("hidden-content-served".into(), format!("{route}: the response (status {}) carries the body of hidden inscription {}", r.status, h.id)));
      }
    }
  }

  fn content(&mut self, route: &str, x: &Spec, follow_delegate: bool, accept: Option<&str>, r: &Response, judged_accept: bool, rep: &mut Report) {
    self.every(route, r, rep);
    if !judged_accept {
      rep.count("observation_only_accept_encodings");
      return;
    }
    // stored encodings that are not legal header values: undocumented, not judged
    let effective = if follow_delegate { x.delegate.and_then(|d| self.specs.iter().find(|s| s.id == d)).unwrap_or(x) } else { x };
    if effective.encoding.as_ref().is_some_and(|b| std::str::from_utf8(b).is_err() || !b.iter().all(|c| (*c >= 32 && *c != 127) || *c == b'\t')) && !self.conf.hidden.contains(&x.id) && !self.conf.hidden.contains(&effective.id) {
      rep.count("observation_only_illegal_stored_encoding");
      return;
    }
    let want = expect(self.specs, x, follow_delegate, accept, self.conf);
    let what = route.split('/').filter(|p| !p.is_empty()).take(if route.starts_with("/r/sat") { 2 } else if route.starts_with("/r/") { 2 } else { 1 }).collect::<Vec<_>>().join("-");
    match &want {
      Expect::Withheld(why) => {
        // leakage is judged in `every`
        rep.count("withheld_checked");
        if *why == "delegate is hidden" {
          rep.count("withheld_through_delegate_checked");
        }
      }
      Expect::Missing => {
        if r.status == 404 || r.status == 406 {
          rep.count("missing_answered_404");
        } else {
          self.bad.push((format!("{what}/status"), format!("{route}: status {} for an inscription without servable content (expected 404)", r.status)));
        }
      }
      Expect::NotAcceptable => {
        if r.status == 406 {
          rep.count("refused_406");
        } else {
          self.bad.push((format!("{what}/encoding-not-refused"), format!("{route} Accept-Encoding {accept:?}: status {} with Content-Encoding {:?} for stored encoding {:?}, decompress={}", r.status, r.header("content-encoding"), x_enc(self.specs, x, follow_delegate), self.conf.decompress)));
        }
      }
      Expect::Undecodable => {
        if r.status >= 400 {
          rep.count("undecodable_refused");
        } else {
          self.bad.push((format!("{what}/undecodable-served"), format!("{route}: status {} for a body that is not valid brotli with decompression on", r.status)));
        }
      }
      Expect::Served { content_type, encoding, body } => {
        if r.status != 200 {
          self.bad.push((format!("{what}/status"), format!("{route} Accept-Encoding {accept:?}: status {} (expected 200, {} bytes, encoding {:?})", r.status, body.len(), encoding.as_ref().map(|e| String::from_utf8_lossy(e).to_string()))));
          return;
        }
        let n0 = self.bad.len();
        // transport compression added by the server's compression layer
        let served_encoding = r.header("content-encoding").map(|s| s.as_bytes().to_vec());
        let served_body: Vec<u8> = match (&served_encoding, encoding) {
          (Some(se), Some(e)) if trim(se) == trim(e) => r.body.clone(),
          (Some(se), None) if se == b"br" => unbrotli(&r.body).unwrap_or_else(|| r.body.clone()),
          (Some(se), None) if se == b"gzip" => ungzip(&r.body).unwrap_or_else(|| r.body.clone()),
          (None, None) => r.body.clone(),
          (se, e) => {
            self.bad.push((format!("{what}/content-encoding"), format!("{route} Accept-Encoding {accept:?}: Content-Encoding {:?}, expected {:?}", se.as_ref().map(|s| String::from_utf8_lossy(s).to_string()), e.as_ref().map(|s| String::from_utf8_lossy(s).to_string()))));
            return;
          }
        };
        if served_body != *body {
          self.bad.push((format!("{what}/body"), format!("{route} Accept-Encoding {accept:?}: {} bytes served, {} expected (decompress={})", served_body.len(), body.len(), self.conf.decompress)));
        }
        let ct = r.header("content-type").unwrap_or("").as_bytes().to_vec();
        if trim(&ct) != trim(content_type) {
          self.bad.push((format!("{what}/content-type"), format!("{route}: Content-Type {:?}, expected {:?}", String::from_utf8_lossy(&ct), String::from_utf8_lossy(content_type))));
        }
        // sandbox
        let policies = r.headers_named("content-security-policy");
        let origin = self.conf.origin.clone().unwrap_or_else(|| format!("http://127.0.0.1:{}", self.page.port));
        let page = parse_url(&format!("{origin}/content/x"));
        for (url, must_allow) in battery(&origin, &x.id) {
          let is = allowed(&policies, &url, &page);
          if is != must_allow {
            self.bad.push((
              if must_allow { format!("{what}/csp-refuses-own-origin") } else { format!("{what}/csp-admits-foreign-origin") },
              format!("{route}: policies {policies:?} {} {url}", if is { "admit" } else { "refuse" }),
            ));
          }
        }
        if self.bad.len() == n0 {
          rep.count("content_served_ok");
          if encoding.is_some() {
            rep.count("content_passed_through_encoded_ok");
          }
          if x.delegate.is_some() && follow_delegate {
            rep.count("content_through_delegate_ok");
          }
          if body != x.body.as_ref().unwrap_or(&Vec::new()) && x.delegate.is_none() {
            rep.count("content_decompressed_ok");
          }
        }
      }
    }
  }
}

fn x_enc(specs: &[Spec], x: &Spec, follow: bool) -> Option<String> {
  let e = if follow { x.delegate.and_then(|d| specs.iter().find(|s| s.id == d)).unwrap_or(x) } else { x };
  e.encoding.as_ref().map(|b| String::from_utf8_lossy(b).to_string())
}

pub fn run(ctx: &Ctx, rep: &mut Report) {
  for case in ctx.cases(u64::MAX) {
    let mut rng = ctx.rng(case);
    let dir = std::path::PathBuf::from(format!("{}/case{}", if ctx.scratch.is_empty() { "/tmp/verif-scratch".to_string() } else { ctx.scratch.clone() }, case));
    let _ = std::fs::remove_dir_all(&dir);
    std::fs::create_dir_all(&dir).unwrap();
    let mut cfg = IndexCfg::from_bits(0);
    cfg.inscriptions = true;
    cfg.sats = rng.chance(2, 3);
    cfg.transactions = rng.chance(1, 2);
    let decompress = rng.chance(1, 2);
    let origin = rng.chance(1, 2).then(|| rng.pick(&["https://ordinals.example", "https://ord.example:8443", "http://10.0.0.7:8080"]).to_string());
    let hide = rng.chance(2, 3);
    let blocks = if ctx.thorough() { rng.range(20, 50) as u32 } else { rng.range(12, 28) as u32 };
    let replay = json!({"replay": ctx.replay_info(case), "index": cfg.label(), "decompress": decompress, "origin": origin, "hide": hide});

    // the chain
    let mut node = Node::new(Network::Regtest);
    let mut model = Model::new();
    model.runes.network = Network::Regtest;
    model.track_runes = false;
    model.apply_block(&node.block_at(0).unwrap());
    let mut bgen = Gen::new(GenCfg { w_transfer: 3, max_txs: 2, odd_outputs: false, ..GenCfg::default() });
    let mut specs: Vec<Spec> = Vec::new();
    let mut reveal_outputs: Vec<OutPoint> = Vec::new();
    for _ in 0..blocks {
      let height = model.height();
      let mut txdata = bgen.block(&mut rng, &model, height);
      let mut spent: BTreeSet<OutPoint> = txdata.iter().flat_map(|t| t.input.iter().map(|i| i.previous_output)).collect();
      for _ in 0..rng.usize(0, 3) {
        let avail = bgen.available(&model, height);
        let cands: Vec<_> = avail.iter().filter(|a| !spent.contains(&a.outpoint) && a.value > 1000).collect();
        if cands.is_empty() {
          break;
        }
        // reinscribe earlier reveal outputs now and then: several inscriptions on one sat
        let again: Vec<_> = cands.iter().filter(|a| reveal_outputs.contains(&a.outpoint)).collect();
        let a = if !again.is_empty() && rng.chance(1, 2) { (**rng.pick(&again)).clone() } else { (*rng.pick(&cands)).clone() };
        spent.insert(a.outpoint);
        let k = *rng.pick(&[1usize, 1, 1, 2, 3]);
        let mut inscriptions = Vec::new();
        let mut pending = Vec::new();
        for _ in 0..k {
          let marker = rng.bytes(16);
          let mut plain_body = rng.some_bytes(0, 300);
          if rng.chance(1, 2) {
            plain_body = (0..rng.usize(40, 400)).map(|_| b'a' + rng.below(4) as u8).collect(); // compressible text
          }
          plain_body.extend(&marker);
          let has_body = rng.chance(9, 10);
          let (encoding, body, plain): (Option<Vec<u8>>, Option<Vec<u8>>, Option<Vec<u8>>) = match rng.below(10) {
            0 | 1 | 2 => (Some(b"br".to_vec()), Some(brotli_compress(&plain_body)), Some(plain_body.clone())),
            3 => (Some(b"br".to_vec()), Some(plain_body.clone()), unbrotli(&plain_body)), // claims brotli, (almost certainly) is not
            4 => (Some(b"gzip".to_vec()), Some(plain_body.clone()), None),
            5 => (Some(rng.pick(&[&b"identity"[..], b"BR", b"br ", b"x-custom", b"\xff\xfe"]).to_vec()), Some(plain_body.clone()), None),
            _ => (None, Some(plain_body.clone()), None),
          };
          let plain = plain.filter(|_| true);
          let body = if has_body { body } else { None };
          let delegate = if !specs.is_empty() && rng.chance(1, 4) {
            Some(match rng.below(6) {
              0 => InscriptionId { txid: bitcoin::Txid::from_byte_array([0x42; 32]), index: 0 }, // missing
              1 => {
                // a delegating inscription, if there is one
                specs.iter().filter(|s| s.delegate.is_some()).map(|s| s.id).next().unwrap_or(specs[0].id)
              }
              _ => rng.pick(&specs).id,
            })
          } else {
            None
          };
          let content_type = gen_content_type(&mut rng);
          inscriptions.push(Inscription {
            body: body.clone(),
            content_encoding: encoding.clone(),
            content_type: content_type.clone(),
            delegate: delegate.as_ref().map(id_value),
            ..Default::default()
          });
          pending.push(Spec { id: InscriptionId { txid: bitcoin::Txid::from_byte_array([0; 32]), index: 0 }, content_type, encoding, body, plain: if has_body { plain } else { None }, marker, delegate });
        }
        let builder = script::Builder::new().push_slice([7u8; 32]).push_opcode(bitcoin::opcodes::all::OP_CHECKSIG);
        let script = Inscription::append_batch_reveal_script_to_builder(&inscriptions, builder).into_script();
        let mut w = Witness::new();
        w.push(script.as_bytes());
        w.push([0xc0u8; 33]);
        let out = TxOut { value: Amount::from_sat(a.value - rng.below(500)), script_pubkey: bgen.scripts[rng.usize(0, 3)].clone() };
        let tx = bgen.finish(vec![a.clone()], vec![out], vec![w]);
        let txid = tx.compute_txid();
        for (i, mut s) in pending.into_iter().enumerate() {
          s.id = InscriptionId { txid, index: i as u32 };
          specs.push(s);
        }
        reveal_outputs.push(OutPoint { txid, vout: 0 });
        txdata.push(tx);
      }
      // the coinbase was computed before the extra fees: it under-claims, which is valid
      let block = node.push_block(txdata);
      model.apply_block(&block);
    }
    if specs.is_empty() {
      continue;
    }

    // hidden list: some plain ones, some that others delegate to
    let mut hidden = BTreeSet::new();
    if hide {
      for s in &specs {
        let is_target = specs.iter().any(|o| o.delegate == Some(s.id));
        if (is_target && rng.chance(1, 2)) || rng.chance(1, 8) {
          hidden.insert(s.id);
        }
      }
    }
    let mut extra = Vec::new();
    if !hidden.is_empty() {
      let path = dir.join("ord.yaml");
      let yaml = format!("hidden:\n{}", hidden.iter().map(|h| format!("- {h}\n")).collect::<String>());
      std::fs::write(&path, yaml).unwrap();
      extra.extend(["--config".to_string(), path.display().to_string()]);
    }
    let mut server_args = Vec::new();
    if decompress {
      server_args.push("--decompress".to_string());
    }
    if let Some(o) = &origin {
      server_args.extend(["--csp-origin".to_string(), o.clone()]);
    }
    let ex = match Explorer::start(&node, &dir, &cfg, &extra, &server_args) {
      Ok(ex) => ex,
      Err(e) => {
        rep.inconclusive(format!("could not start the explorer: {e}"));
        continue;
      }
    };
    let conf = Conf { decompress, hidden, origin: origin.clone() };
    rep.count("states");
    rep.distinct(&(cfg.label(), decompress, origin.is_some(), conf.hidden.len().min(4), specs.len() / 5));
    rep.seen("configurations", format!("decompress={decompress} origin={} hidden={}", origin.is_some(), !conf.hidden.is_empty()));

    let mut judge = Judge { specs: &specs, conf: &conf, page: parse_url(&format!("http://127.0.0.1:{}/", ex.port)), bad: Vec::new() };
    let accepts: [(Option<&str>, bool); 8] = [(None, true), (Some("br"), true), (Some("gzip"), true), (Some("gzip, br"), true), (Some("br;q=0.5"), true), (Some("identity"), true), (Some("*"), false), (Some("br;q=0"), false)];
    for x in &specs {
      // is it in the index at all? (every envelope gets an id)
      for (accept, judged) in accepts {
        let headers: Vec<(&str, &str)> = accept.map(|a| vec![("Accept-Encoding", a)]).unwrap_or_default();
        for (route, follow) in [(format!("/content/{}", x.id), true), (format!("/r/undelegated-content/{}", x.id), false)] {
          match ex.get(&route, &headers) {
            Ok(r) => judge.content(&route, x, follow, accept, &r, judged, rep),
            Err(e) => judge.bad.push(("request-failed".into(), format!("{route}: {e}"))),
          }
        }
      }
      // preview: a page of ord's own, or the content itself for iframe media
      for accept in [None, Some("br")] {
        let headers: Vec<(&str, &str)> = accept.map(|a| vec![("Accept-Encoding", a)]).unwrap_or_default();
        let route = format!("/preview/{}", x.id);
        match ex.get(&route, &headers) {
          Ok(r) => {
            judge.every(&route, &r, rep);
            // when the preview answers with the content itself it must be sandboxed like content
            let e = x.delegate.and_then(|d| specs.iter().find(|s| s.id == d)).unwrap_or(x);
            if r.status == 200 && e.body.as_ref().is_some_and(|b| !b.is_empty() && r.body == *b) {
              let policies = r.headers_named("content-security-policy");
              let origin_s = conf.origin.clone().unwrap_or_else(|| format!("http://127.0.0.1:{}", ex.port));
              let page = parse_url(&format!("{origin_s}/preview/x"));
              for (url, must_allow) in battery(&origin_s, &x.id) {
                if !must_allow && allowed(&policies, &url, &page) {
                  judge.bad.push(("preview/csp-admits-foreign-origin".into(), format!("{route}: content served with policies {policies:?} that admit {url}")));
                }
              }
              rep.count("preview_served_content_checked");
            } else {
              rep.count("preview_pages_checked");
            }
          }
          Err(e) => judge.bad.push(("request-failed".into(), format!("{route}: {e}"))),
        }
      }
    }
    // content addressed by sat and index
    if cfg.sats {
      let mut by_sat: std::collections::BTreeMap<u64, Vec<&Spec>> = Default::default();
      for x in &specs {
        if let Ok(Some(entry)) = ex.index.get_inscription_entry(x.id)
          && let Some(sat) = entry.sat
        {
          by_sat.entry(sat.n()).or_default().push(x);
        }
      }
      for (sat, on_sat) in &by_sat {
        let n = on_sat.len() as isize;
        for i in [0isize, n - 1, -1, -n] {
          let x = if i >= 0 { on_sat[i as usize] } else { on_sat[(n + i) as usize] };
          for accept in [None, Some("br")] {
            let headers: Vec<(&str, &str)> = accept.map(|a| vec![("Accept-Encoding", a)]).unwrap_or_default();
            let route = format!("/r/sat/{sat}/at/{i}/content");
            match ex.get(&route, &headers) {
              Ok(r) => {
                judge.content(&route, x, true, accept, &r, true, rep);
                if i < 0 {
                  rep.count("negative_index_content_requests");
                  if r.header("cache-control").is_some_and(|c| c.contains("immutable")) {
                    judge.bad.push(("r-sat-content/negative-index-immutable".into(), format!("{route}: Cache-Control {:?}", r.header("cache-control"))));
                  }
                } else if r.status == 200 && !r.header("cache-control").is_some_and(|c| c.contains("immutable")) {
                  rep.count("positive_index_not_immutable_observed");
                }
                if n > 1 {
                  rep.count("sat_content_with_reinscriptions_requests");
                }
              }
              Err(e) => judge.bad.push(("request-failed".into(), format!("{route}: {e}"))),
            }
          }
        }
      }
    }
    // every other kind of response carries the header as well
    let some = specs[0].id;
    for (method, route, headers, body) in [
      ("GET", "/".to_string(), vec![], None),
      ("GET", "/status".to_string(), vec![("Accept", "application/json")], None),
      ("GET", "/inscriptions".to_string(), vec![], None),
      ("GET", format!("/inscription/{some}"), vec![("Accept", "application/json")], None),
      ("GET", format!("/inscription/{some}"), vec![], None),
      ("GET", format!("/r/inscription/{some}"), vec![], None),
      ("GET", "/r/blockheight".to_string(), vec![], None),
      ("GET", "/static/index.css".to_string(), vec![], None),
      ("GET", "/static/does-not-exist".to_string(), vec![], None),
      ("GET", "/favicon.ico".to_string(), vec![], None),
      ("GET", "/no/such/route".to_string(), vec![], None),
      ("GET", "/content/not-an-id".to_string(), vec![], None),
      ("GET", "/content/0000000000000000000000000000000000000000000000000000000000000000i0".to_string(), vec![], None),
      ("GET", "/r/sat/abc/at/0/content".to_string(), vec![], None),
      ("GET", "/block/999999".to_string(), vec![], None),
      ("GET", "/sat/2099999997690000".to_string(), vec![], None),
      ("GET", "/output/zz".to_string(), vec![], None),
      ("GET", "/search?query=%00".to_string(), vec![], None),
      ("POST", "/outputs".to_string(), vec![("Content-Type", "application/json"), ("Accept", "application/json")], Some("not json")),
      ("POST", "/inscriptions".to_string(), vec![("Content-Type", "application/json"), ("Accept", "application/json")], Some("[]")),
      ("PUT", "/content/x".to_string(), vec![], None),
      ("OPTIONS", "/content/x".to_string(), vec![("Origin", "https://evil.example"), ("Access-Control-Request-Method", "GET")], None),
    ] {
      match ex.request(method, &route, &headers, body.map(|b: &str| b.as_bytes())) {
        Ok(r) => {
          judge.every(&format!("{method} {route}"), &r, rep);
          rep.count("other_routes_checked");
        }
        Err(e) => judge.bad.push(("request-failed".into(), format!("{method} {route}: {e}"))),
      }
    }
    ex.stop();

    let mut seen = BTreeSet::new();
    for (what, detail) in std::mem::take(&mut judge.bad) {
      if seen.insert(what.clone()) {
        rep.violation(&format!("C19/{what}"), detail, replay.clone());
      }
    }
    if rep.want_sample() {
      rep.sample(json!({"inscriptions": specs.len(), "delegating": specs.iter().filter(|s| s.delegate.is_some()).count(), "hidden": conf.hidden.len(), "decompress": decompress, "origin": origin, "first": {"content_type": specs[0].content_type.as_ref().map(|c| String::from_utf8_lossy(c).to_string()), "encoding": specs[0].encoding.as_ref().map(|c| String::from_utf8_lossy(c).to_string()), "body_bytes": specs[0].body.as_ref().map(|b| b.len())}}));
    }
    let _ = std::fs::remove_dir_all(&dir);
  }
}
