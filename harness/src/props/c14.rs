//! C14 — reorganisations within the recoverable depth are fully undone;
//! unrecoverable ones are reported and flagged; abandoned blocks are never
//! kept silently.
//!
//! Fault sequences: fork height x depth over a full savepoint period, blocks
//! fed one per update / in batches / all at once (this changes where
//! savepoints land), consecutive and nested reorgs, and reorgs that land
//! *during* an update at a chosen logical step (hook action). Oracle: masked
//! dump equality with a from-scratch index on the new best chain; a fuse on
//! `update.loop` turns "never returns" into an observable panic.

use crate::{
  blockgen::{Gen, GenCfg},
  chainbuild::extend,
  ctx::Ctx,
  dump::{diff, differing_tables, masked_dump},
  hooks::{FUSE_MARKER, Hooks},
  idx::IndexCfg,
  model::Model,
  node::Node,
  report::{Report, catch, panic_signature},
  rng::Rng,
};
use bitcoin::{Block, Network};
use ord::Index;
use serde_json::json;
use std::sync::{Arc, Mutex};

struct World {
  node: Arc<Mutex<Node>>,
  model: Model,
  bgen: Gen,
  cfg: IndexCfg,
  dir: std::path::PathBuf,
}

fn chain_with_genesis(node: &Node) -> Vec<Block> {
  let mut v = vec![node.block_at(0).unwrap()];
  v.extend(node.chain());
  v
}

/// Feed `n` new blocks and update according to the feed mode.
fn grow(w: &mut World, index: &Index, rng: &mut Rng, n: u32, feed: u64) -> Result<(), String> {
  let mut left = n;
  while left > 0 {
    let step = match feed {
      0 => 1,
      1 => rng.range(1, 6) as u32,
      _ => left,
    }
    .min(left);
    {
      let mut node = w.node.lock().unwrap();
      extend(rng, &mut node, &mut w.model, &mut w.bgen, step);
    }
    left -= step;
    match catch(|| index.update()) {
      Ok(Ok(())) => {}
      Ok(Err(e)) => return Err(format!("update() while growing: {e:#}")),
      Err(p) => return Err(format!("update() panicked while growing: {p}")),
    }
  }
  Ok(())
}

/// Switch the node to another branch: drop `depth` blocks, mine `new_len`.
fn switch_branch(w: &mut World, rng: &mut Rng, depth: u32, new_len: u32) {
  let mut node = w.node.lock().unwrap();
  node.pop_blocks(depth);
  let like = w.model.clone();
  w.model = Model::replay(&chain_with_genesis(&node), &like);
  extend(rng, &mut node, &mut w.model, &mut w.bgen, new_len);
}

fn headers_match(index: &Index, node: &Node) -> Result<(), String> {
  let count = index.block_count().map_err(|e| e.to_string())?;
  for h in 0..count {
    let ih = index.block_hash(Some(h)).map_err(|e| e.to_string())?;
    let nh = node.hash_at(h);
    if ih != nh {
      return Err(format!("height {h}: index holds header {ih:?}, the node's best chain has {nh:?}"));
    }
  }
  Ok(())
}

/// Follow the savepoint events of a trace: `retained` holds the heights
/// (= number of indexed blocks) of the persistent savepoints still held,
/// oldest first. Deletion removes the oldest; restoring the oldest (rollback)
/// invalidates all later ones.
fn absorb(trace: &[(&'static str, u64, u64)], retained: &mut Vec<u64>) {
  for (name, a, _) in trace {
    match *name {
      "savepoint.deleted" => {
        if !retained.is_empty() {
          retained.remove(0);
        }
      }
      "savepoint.created" => retained.push(*a),
      "rollback.after_commit" => retained.truncate(1),
      _ => {}
    }
  }
}

pub fn run(ctx: &Ctx, rep: &mut Report) {
  let hooks = Hooks::install();
  let scratch = if ctx.scratch.is_empty() { "/tmp/verif-scratch".to_string() } else { ctx.scratch.clone() };
  for case in ctx.cases(u64::MAX) {
    let mut rng = ctx.rng(case);
    // one case in five is the "uncommitted tail" scenario: no commit happens
    // while dozens of pending blocks are indexed (no savepoint is due, commit
    // interval 5000), and the branch switch lands in the middle of them
    let tail_scenario = rng.chance(1, 5);
    // (a savepoint, hence a commit, is due at every height below the interval
    // and then every `interval` blocks: with 50 the heights 50..98 stay uncommitted)
    let si = if tail_scenario { 50 } else { *rng.pick(&[3usize, 3, 10, 10, 5]) };
    let ms = *rng.pick(&[2usize, 2, 3, 1]);
    let ci = if tail_scenario { 5000 } else { *rng.pick(&[1usize, 2, 5000, 5000]) };
    let feed = rng.below(3);
    let mut gencfg = GenCfg::default();
    gencfg.w_transfer = 5;
    gencfg.w_reveal = 3;
    // the in-flight update of a mid-update switch often dies in the rune
    // updater (it asks the node for a transaction of the abandoned branch);
    // chains without rune transactions let it reach the reorg handling
    gencfg.w_rune = if rng.chance(1, 2) { 3 } else { 0 };
    gencfg.max_txs = 3;
    let mut cfg = IndexCfg::all();
    cfg.commit_interval = Some(ci);
    cfg.savepoint_interval = Some(si);
    cfg.max_savepoints = Some(ms);
    if rng.chance(1, 3) {
      cfg.sats = false;
      cfg.addresses = false;
    }
    let dir = std::path::PathBuf::from(format!("{scratch}/c14-{case}"));
    let _ = std::fs::remove_dir_all(&dir);
    std::fs::create_dir_all(dir.join("main")).unwrap();
    let node = Node::new(Network::Regtest);
    let mut model = Model::new();
    model.runes.keep_log = false;
    model.apply_block(&node.block_at(0).unwrap());
    let mut w = World { node: Arc::new(Mutex::new(node)), model, bgen: Gen::new(gencfg), cfg: cfg.clone(), dir: dir.clone() };
    hooks.configure(|st| {
      st.record_trace = true;
      st.fuses.clear();
      st.sleeps.clear();
      st.action_at = None;
    });
    hooks.reset_counts();
    let index = match cfg.open(&w.node.lock().unwrap(), &dir.join("main")) {
      Ok(i) => i,
      Err(e) => {
        rep.inconclusive(format!("open: {e:#}"));
        continue;
      }
    };
    let base_replay = ctx.replay_info(case);
    let params = format!("savepoint_interval={si} max_savepoints={ms} commit_interval={ci} feed={}", ["one-per-update", "batches", "all-at-once"][feed as usize]);
    let h0 = if tail_scenario { rng.range(51, 58) as u32 } else { rng.range(2, if ctx.thorough() { 70 } else { 45 }) as u32 };
    if let Err(e) = grow(&mut w, &index, &mut rng, h0, feed) {
      rep.violation("C14/update-error-without-reorg", format!("{params}: {e}"), json!({"replay": base_replay}));
      continue;
    }
    let n_reorgs = *rng.pick(&[1usize, 1, 2, 3]);
    let mut alive = true;
    let mut retained: Vec<u64> = Vec::new();
    for r in 0..n_reorgs {
      if !alive {
        break;
      }
      let height = w.model.height() - 1; // tip height
      let max_depth = ((ms * si) as u32 + 4).min(height);
      if max_depth == 0 {
        break;
      }
      let mut depth = match rng.below(4) {
        0 => 1,
        1 => rng.range(1, 3).min(u64::from(max_depth)) as u32,
        _ => rng.range(1, u64::from(max_depth)) as u32,
      };
      let extra = rng.range(1, 3) as u32;
      let mid_update = tail_scenario || rng.chance(1, 4);
      // half of the time more blocks are pending than the prefetch channel
      // holds (32), so that the fetcher is still at work when the switch
      // lands and hands the updater a block of the other branch on top of
      // uncommitted blocks of the old one; and half of those fork *inside*
      // the pending tail (nothing committed is abandoned)
      let long_tail = tail_scenario || (mid_update && rng.chance(1, 2));
      if long_tail && rng.chance(if tail_scenario { 2 } else { 1 }, if tail_scenario { 3 } else { 2 }) {
        depth = 0;
      }
      absorb(&hooks.trace(), &mut retained);
      let savepoints_before = retained.clone();
      let pre_dump = masked_dump(&index).ok();
      let replay = json!({"replay": base_replay, "params": params, "reorg": {"number": r, "tip_height": height, "depth": depth, "replacement_blocks": depth + extra, "during_update": mid_update, "savepoints_created_at": savepoints_before}});
      rep.eval();
      rep.distinct(&(si, ms, ci.min(3), feed, depth, height % (si as u32), mid_update));
      rep.seen("reorg_depth_x_height_mod_interval", format!("si{si}/ms{ms}/d{depth}/h%{}", height % si as u32));
      hooks.reset_counts();
      let budget = (ms as u64) + 6;
      hooks.configure(|st| {
        st.fuses = vec![("update.loop".to_string(), budget), ("rollback.start".to_string(), budget)];
      });
      if mid_update {
        // a few more blocks on the old branch are pending; while they are
        // being indexed the node switches to the other branch
        let pending = if tail_scenario { rng.range(36, 40) as u32 } else if long_tail { rng.range(36, 60) as u32 } else { rng.range(2, 5) as u32 };
        {
          let mut node = w.node.lock().unwrap();
          extend(&mut rng, &mut node, &mut w.model, &mut w.bgen, pending);
        }
        // pre-build the replacement branch, then restore the old one
        let old_tail: Vec<Block> = {
          let mut node = w.node.lock().unwrap();
          node.pop_blocks(depth + pending)
        };
        let like = w.model.clone();
        let mut branch_model = Model::replay(&chain_with_genesis(&w.node.lock().unwrap()), &like);
        let new_tail: Vec<Block> = {
          let mut node = w.node.lock().unwrap();
          extend(&mut rng, &mut node, &mut branch_model, &mut w.bgen, depth + pending + extra)
        };
        {
          let mut node = w.node.lock().unwrap();
          node.pop_blocks(depth + pending + extra);
          for b in &old_tail {
            node.push_existing(b);
          }
        }
        let node_for_action = w.node.clone();
        let drop_n = depth + pending;
        let nth = if long_tail { rng.range(1, u64::from(pending) - 34) } else { rng.range(1, u64::from(pending)) };
        if long_tail {
          rep.count("reorgs_during_update_with_fetcher_still_running");
          if depth == 0 {
            rep.count("reorgs_inside_the_uncommitted_tail");
          }
        }
        hooks.configure(|st| {
          st.action_at = Some((
            "update.block_indexed".to_string(),
            nth,
            Box::new(move || {
              let mut node = node_for_action.lock().unwrap();
              node.pop_blocks(drop_n);
              for b in &new_tail {
                node.push_existing(b);
              }
            }),
          ));
        });
        w.model = branch_model;
        rep.count("reorgs_during_update");
      } else {
        switch_branch(&mut w, &mut rng, depth, depth + extra);
      }
      let mut result = catch(|| index.update());
      let action_fired_in_flight = hooks.0.lock().map(|st| st.action_at.is_none()).unwrap_or(true);
      if mid_update && action_fired_in_flight && !matches!(&result, Err(p) if p.contains(FUSE_MARKER)) {
        // the switch happened while that update was running: it may have
        // finished on prefetched blocks of the old branch, or failed because
        // the node no longer serves the old branch (missing input
        // transactions, blocks of both branches in one uncommitted batch).
        // The statement is about the *next* update, which is judged below on
        // whatever the in-flight one left behind.
        match &result {
          Ok(Ok(())) => rep.count("inflight_update_finished"),
          Ok(Err(e)) => {
            rep.count("inflight_update_returned_error");
            rep.seen("inflight_update_failures", format!("error: {}", panic_signature(&format!("{e:#} @ "))));
          }
          Err(p) => {
            rep.count("inflight_update_panicked");
            rep.seen("inflight_update_failures", format!("panic: {}", panic_signature(p)));
          }
        }
        let reported_unrecoverable = matches!(&result, Ok(Err(e)) if format!("{e:#}").contains("unrecoverable reorg"));
        if !reported_unrecoverable {
          hooks.configure(|st| st.counts.clear());
          result = catch(|| index.update());
        }
      }
      let trace = hooks.trace();
      let action_fired = hooks.0.lock().map(|st| st.action_at.is_none()).unwrap_or(true);
      hooks.configure(|st| {
        st.fuses.clear();
        st.action_at = None;
      });
      let classified_recoverable = trace.iter().filter(|(n, _, _)| *n == "reorg.recoverable").count();
      let classified_unrecoverable = trace.iter().filter(|(n, _, _)| *n == "reorg.unrecoverable").count();
      let rollbacks = trace.iter().filter(|(n, _, _)| *n == "rollback.after_commit").count();
      let summary = format!(
        "{params}; reorg #{r} of depth {depth} at tip {height} (+{} new blocks{}); classified recoverable x{classified_recoverable}, unrecoverable x{classified_unrecoverable}, rollbacks {rollbacks} (to heights {:?}); savepoints were created at {:?}",
        depth + extra,
        if mid_update { ", landing during the update" } else { "" },
        trace.iter().filter(|(n, _, _)| *n == "rollback.after_commit").map(|(_, _, b)| *b).take(6).collect::<Vec<_>>(),
        savepoints_before,
      );
      if mid_update && !action_fired {
        // the switch never happened (update ended first): do it now, next update sees it
        rep.count("mid_update_action_not_reached");
      }
      match result {
        Err(p) if p.contains(FUSE_MARKER) => {
          // which flavour of livelock? the oldest savepoint restored is still above the fork
          let fork = u64::from(height + 1 - depth); // first height that differs
          let restored: Vec<u64> = trace.iter().filter(|(n, _, _)| *n == "rollback.after_commit").map(|(_, _, b)| *b).collect();
          let sig = if restored.iter().all(|b| *b > fork) { "C14/livelock/oldest-savepoint-above-fork" } else { "C14/livelock" };
          rep.violation(sig, format!("update() does not terminate: {p}. {summary}"), replay);
          alive = false;
        }
        Err(p) => {
          rep.violation(&format!("C14/update-panic/{}", panic_signature(&p)), format!("{p}. {summary}"), replay);
          alive = false;
        }
        Ok(Ok(())) => {
          rep.count("updates_ok_after_reorg");
          if rollbacks > 0 {
            rep.count("rollbacks_observed");
          }
          let node = w.node.lock().unwrap();
          if let Err(e) = headers_match(&index, &node) {
            rep.violation("C14/abandoned-block-kept", format!("{e}. {summary}"), replay.clone());
            alive = false;
          }
          // from-scratch index on the new best chain
          let fresh_dir = w.dir.join(format!("fresh{r}"));
          let _ = std::fs::create_dir_all(&fresh_dir);
          let fresh = w.cfg.open(&node, &fresh_dir).and_then(|i| i.update().map(|_| i));
          match (fresh, masked_dump(&index)) {
            (Ok(fresh), Ok(got)) => match masked_dump(&fresh) {
              Ok(want) => {
                if got != want {
                  let tables = differing_tables(&want, &got);
                  rep.violation(&format!("C14/not-equal-to-from-scratch/{}", tables.join("+")), format!("{}. {summary}", diff(&want, &got, "from-scratch", "after-reorg")), replay.clone());
                  alive = false;
                } else {
                  rep.count("equal_to_from_scratch");
                }
              }
              Err(e) => rep.inconclusive(format!("dump of fresh index failed: {e}")),
            },
            (Err(e), _) => rep.inconclusive(format!("from-scratch index failed: {e:#}")),
            (_, Err(e)) => rep.inconclusive(format!("dump failed: {e}")),
          }
          drop(node);
          let _ = std::fs::remove_dir_all(w.dir.join(format!("fresh{r}")));
        }
        Ok(Err(e)) => {
          let msg = format!("{e:#}");
          alive = false;
          if msg.contains("unrecoverable reorg") {
            rep.count("unrecoverable_reported");
            let flagged = index.status(false).map(|s| s.unrecoverably_reorged).unwrap_or(false);
            if !flagged {
              rep.violation("C14/unrecoverable-not-flagged", format!("update() reported an unrecoverable reorg but status().unrecoverably_reorged is false. {summary}"), replay.clone());
            }
            if classified_recoverable > 0 {
              // which savepoints were held when the fork was first classified?
              let mut at_detection = savepoints_before.clone();
              let upto = trace.iter().position(|(n, _, _)| *n == "reorg.recoverable").unwrap_or(trace.len());
              absorb(&trace[..upto], &mut at_detection);
              // direct observation first: the block count right after restoring the
              // oldest savepoint (hook point rollback.after_commit); the replayed
              // savepoint bookkeeping is only descriptive. With pending old-branch
              // blocks indexed before a mid-update switch the fork is still
              // `height - depth` (the tip before they were mined).
              let fork = u64::from(height - depth); // last common height
              let restored_to: Vec<u64> = trace.iter().filter(|(n, _, _)| *n == "rollback.after_commit").map(|(_, _, b)| *b).collect();
              let usable = match restored_to.first() {
                Some(count) => *count <= fork + 1,
                None => at_detection.first().is_some_and(|h| *h <= fork + 1),
              };
              let sig = if usable { "C14/classified-recoverable-but-reported-unrecoverable" } else { "C14/classified-recoverable-but-oldest-savepoint-above-fork" };
              rep.violation(
                sig,
                format!("ord classified the fork (last common height {fork}) as recoverable, rolled back and then reported it unrecoverable; savepoints held at detection: {at_detection:?}. {summary}"),
                replay.clone(),
              );
            } else if let (Some(pre), Ok(post)) = (&pre_dump, masked_dump(&index)) {
              // nothing may be half-applied... unless blocks of the *old* branch
              // that were pending got indexed before the switch was noticed
              if !mid_update && *pre != post {
                rep.violation("C14/unrecoverable-left-index-changed", format!("{}. {summary}", diff(pre, &post, "before", "after")), replay.clone());
              }
            }
          } else {
            rep.violation("C14/update-error", format!("{msg}. {summary}"), replay.clone());
          }
        }
      }
      if rep.want_sample() {
        rep.sample(json!({"summary": summary}));
      }
      if alive && r + 1 < n_reorgs {
        // consecutive or nested: a few more blocks, then the next one
        let more = rng.below(4) as u32;
        if let Err(e) = grow(&mut w, &index, &mut rng, more, feed) {
          rep.violation("C14/update-error-after-recovery", format!("{params}: {e}"), json!({"replay": base_replay}));
          alive = false;
        }
      }
    }
    drop(index);
    let _ = std::fs::remove_dir_all(&dir);
  }
}
