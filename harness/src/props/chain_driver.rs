//! Driver of the chain engine: builds a scenario for the requested property,
//! feeds generated blocks to the node, folds the reference models, calls
//! `Index::update()` and lets only the requested property's audits decide.

use super::{
  chain::{Run, Scenario, audit_c01, audit_c02, audit_c17},
  chain_events::{Collector, audit_c37},
  chain_insc, chain_runes,
};
use crate::{
  blockgen::{Gen, GenCfg},
  ctx::Ctx,
  idx::IndexCfg,
  model::{Model, sats},
  node::Node,
  report::{Report, catch, panic_signature},
  rng::Rng,
};
use bitcoin::Network;
use serde_json::json;
use std::collections::BTreeSet;

pub const CHAIN_PROPS: &[&str] = &["C01", "C02", "C03", "C04", "C05", "C06", "C07", "C08", "C09", "C10", "C11", "C16", "C17", "C37"];

fn scenario(prop: &str, ctx: &Ctx, rng: &mut Rng) -> Scenario {
  let thorough = ctx.thorough();
  let mut blocks = if thorough { rng.range(120, 400) as u32 } else { rng.range(40, 110) as u32 };
  let mut gencfg = GenCfg::default();
  let mut index = IndexCfg::from_bits(0);
  index.commit_interval = Some(*rng.pick(&[1usize, 2, 3, 7, 5000]));
  let mut audit_every = *rng.pick(&[1u32, 1, 1, 2, 3, 5]);
  let p: &'static str = CHAIN_PROPS.iter().find(|p| **p == prop).unwrap_or_else(|| panic!("chain engine does not serve {prop}"));
  let mut network = Network::Regtest;
  match p {
    "C01" | "C02" => {
      index.sats = true;
      index.inscriptions = rng.chance(1, 3);
      index.addresses = rng.chance(1, 3);
      index.runes = rng.chance(1, 4);
      index.transactions = rng.chance(1, 4);
      gencfg.dup_coinbase_permille = if rng.chance(1, 2) { 60 } else { 0 };
      if p == "C02" && !thorough {
        audit_every = audit_every.max(2);
      }
    }
    "C17" => {
      index.addresses = true;
      index.sats = rng.chance(1, 3);
      index.inscriptions = rng.chance(1, 3);
      index.runes = rng.chance(1, 4);
    }
    "C03" | "C04" | "C05" | "C06" | "C07" => {
      index.inscriptions = true;
      index.sats = rng.chance(1, 2);
      index.addresses = rng.chance(1, 4);
      index.runes = rng.chance(1, 5);
      index.transactions = rng.chance(1, 4);
      gencfg.w_transfer = 5;
      gencfg.w_reveal = 6;
      if p == "C05" {
        // cross the regtest jubilee (110) in half of the chains, or run on a
        // network that is jubilant from genesis
        match rng.below(4) {
          0 => network = Network::Testnet4,
          1 | 2 => blocks = blocks.max(rng.range(125, 170) as u32),
          _ => {}
        }
        if blocks > 120 {
          audit_every = audit_every.max(3);
        }
      }
    }
    "C08" | "C09" | "C10" | "C11" => {
      index.runes = true;
      index.inscriptions = rng.chance(1, 3);
      index.sats = rng.chance(1, 4);
      index.addresses = rng.chance(1, 4);
      gencfg.w_transfer = 4;
      gencfg.w_rune = 8;
      gencfg.w_reveal = if index.inscriptions { 1 } else { 0 };
    }
    "C16" => {
      // every combination of the five index switches, every generator class
      // including the adversarial one, both UTXO paths (hook H5)
      index = IndexCfg::from_bits(rng.below(32) as u32);
      index.commit_interval = Some(*rng.pick(&[1usize, 3, 5000]));
      gencfg.w_transfer = 3;
      gencfg.w_reveal = 4;
      gencfg.w_rune = 4;
      gencfg.w_adversarial = 5;
      gencfg.dup_coinbase_permille = if !index.inscriptions && !index.runes && rng.chance(1, 2) { 40 } else { 0 };
      blocks = if thorough { rng.range(40, 150) as u32 } else { rng.range(20, 60) as u32 };
      audit_every = *rng.pick(&[1u32, 2, 5, 1000]);
    }
    "C37" => {
      index.inscriptions = true;
      index.runes = rng.chance(3, 4);
      index.sats = rng.chance(1, 3);
      gencfg.w_transfer = 4;
      gencfg.w_reveal = 5;
      gencfg.w_rune = if index.runes { 5 } else { 0 };
    }
    _ => unreachable!(),
  }
  gencfg.max_txs = *rng.pick(&[3usize, 6, 10]);
  gencfg.maturity = if thorough && rng.chance(1, 5) { 100 } else { 1 };
  Scenario { prop: p, gencfg, index, network, blocks, audit_every }
}

fn jubilee_height(network: Network) -> u32 {
  match network {
    Network::Regtest => 110,
    Network::Testnet4 => 0,
    _ => u32::MAX,
  }
}

pub fn run(ctx: &Ctx, rep: &mut Report) {
  let prop = ctx.prop.clone();
  for case in ctx.cases(u64::MAX) {
    let mut rng = ctx.rng(case);
    let sc = scenario(&prop, ctx, &mut rng);
    let replay = json!({"replay": ctx.replay_info(case), "scenario": {"index": sc.index.label(), "network": sc.network.to_string(), "blocks": sc.blocks, "audit_every": sc.audit_every, "dup_coinbase_permille": sc.gencfg.dup_coinbase_permille}});
    let dir = std::path::PathBuf::from(format!("{}/case{}", if ctx.scratch.is_empty() { "/tmp/verif-scratch".to_string() } else { ctx.scratch.clone() }, case));
    let _ = std::fs::remove_dir_all(&dir);
    std::fs::create_dir_all(&dir).unwrap();
    let node = Node::new(sc.network);
    // C16 also exercises the node-fetch path for input values (hook H5)
    // ... and a quarter of the inscription / rune / event scenarios that have a
    // sat index (full UTXO index, lost sats counted from genesis as the model
    // does) start indexing inscriptions and runes at a later height, like the
    // public networks do
    let first_height = if sc.prop == "C16" && rng.chance(1, 2) {
      Some(rng.range(5, 25) as u32)
    } else if matches!(sc.prop, "C03" | "C04" | "C05" | "C06" | "C07" | "C08" | "C09" | "C10" | "C11" | "C37") && sc.index.sats && rng.chance(1, 2) {
      Some(rng.range(4, 20) as u32)
    } else {
      None
    };
    ord::verif::set_first_heights(first_height, first_height);
    if first_height.is_some() {
      rep.count("chains_with_late_first_inscription_height");
    }
    let wants_events = matches!(sc.prop, "C09" | "C37");
    let mut collector = None;
    let opened = if wants_events {
      let capacity = *rng.pick(&[1usize, 4, 128]);
      let (c, sender) = Collector::new(capacity);
      collector = Some(c);
      sc.index.open_with_events(&node, &dir, sender)
    } else {
      sc.index.open(&node, &dir)
    };
    let index = match opened {
      Ok(i) => i,
      Err(e) => {
        rep.inconclusive(format!("cannot open index: {e:#}"));
        continue;
      }
    };
    let mut model = Model::new();
    model.runes.network = sc.network;
    model.runes.first_rune_height = ordinals::Rune::first_rune_height(sc.network);
    if sc.prop != "C16"
      && let Some(h) = first_height
    {
      model.insc.first_height = h;
      model.runes.first_rune_height = h;
      rep.count("chains_with_late_first_inscription_height");
    }
    // duplicate txids are only generated in sat scenarios; they would make
    // inscription ids ambiguous
    model.track_inscriptions = sc.gencfg.dup_coinbase_permille == 0;
    model.track_runes = sc.gencfg.dup_coinbase_permille == 0;
    model.apply_block(&node.block_at(0).unwrap());
    let bgen = Gen::new(sc.gencfg.clone());
    let mut run = Run { sc: &sc, node, model, bgen, index, replay };
    rep.seen("index_configs", sc.index.label());
    rep.seen("networks", sc.network.to_string());
    let mut shape = (0u64, 0u64, 0u64, 0u64); // txs, same-block spends, multi-output coinbases, duplicates
    let mut log_mark = 0usize; // rune log entries already compared with events
    let mut events_mark = 0usize;
    for step in 1..=sc.blocks {
      let height = run.model.height();
      let txdata = run.bgen.block(&mut rng, &run.model, height);
      shape.0 += txdata.len() as u64 - 1;
      if txdata[0].output.len() > 1 {
        shape.2 += 1;
      }
      let ids: BTreeSet<_> = txdata.iter().map(|t| t.compute_txid()).collect();
      shape.1 += txdata.iter().skip(1).flat_map(|t| t.input.iter()).filter(|i| ids.contains(&i.previous_output.txid)).count() as u64;
      for (i, t) in txdata.iter().enumerate() {
        let claimed: u64 = t.output.iter().map(|o| o.value.to_sat()).sum();
        rep.distinct(&(
          "tx",
          i == 0,
          t.input.len().min(5),
          t.output.len().min(5),
          t.output.iter().any(|o| o.script_pubkey.is_op_return()),
          t.output.iter().any(|o| o.value.to_sat() == 0),
          t.input.iter().filter(|inp| ids.contains(&inp.previous_output.txid)).count().min(3),
          t.input.iter().filter(|inp| !inp.witness.is_empty()).count().min(3) * (i > 0) as usize,
          if i == 0 { (claimed == 0) as u8 + 2 * (claimed < sats::subsidy(height)) as u8 } else { 0 },
          ord::ParsedEnvelope::from_transaction(t).len().min(4),
          t.output.iter().any(|o| o.script_pubkey.as_bytes().starts_with(&[0x6a, 0x5d])),
        ));
      }
      let mut txdata = txdata;
      if sc.prop == "C16" {
        // consensus limit: 4,000,000 weight units per block; generate again
        // (the coinbase claims the fees, so transactions cannot just be dropped)
        let mut tries = 0;
        while txdata.iter().map(|t| t.weight().to_wu()).sum::<u64>() > 3_900_000 {
          rep.count("blocks_regenerated_at_the_weight_limit");
          txdata = run.bgen.block(&mut rng, &run.model, height);
          tries += 1;
          if tries > 20 {
            break;
          }
        }
        rep.max("max_block_weight", txdata.iter().map(|t| t.weight().to_wu()).sum::<u64>());
        // the node hands blocks to ord in consensus encoding: a generated
        // transaction that does not survive it is the generator's mistake
        if let Some((i, t)) = txdata.iter().enumerate().find(|(_, t)| bitcoin::consensus::deserialize::<bitcoin::Transaction>(&bitcoin::consensus::serialize(*t)).is_err()) {
          rep.inconclusive(format!(
            "generator produced a transaction that does not round-trip through consensus encoding (tx {i}: {} inputs, {} outputs, witness sizes {:?})",
            t.input.len(),
            t.output.len(),
            t.input.iter().map(|inp| inp.witness.iter().map(|e| e.len()).collect::<Vec<_>>()).collect::<Vec<_>>()
          ));
          break;
        }
      }
      let displaced_before = run.model.sats.displaced_outputs;
      let block = run.node.push_block(txdata);
      run.model.apply_block(&block);
      if run.model.sats.displaced_outputs > displaced_before {
        shape.3 += 1;
        rep.count("blocks_with_displacing_duplicate");
      }
      rep.count("blocks");
      rep.add("transactions", block.txdata.len() as u64);
      if step % sc.audit_every != 0 && step != sc.blocks {
        continue;
      }
      let mut failed = false;
      match catch(|| run.index.update()) {
        Ok(Ok(())) => {}
        Ok(Err(e)) => {
          rep.violation(&format!("{}/update-error", sc.prop), format!("height {height}: update() returned {e:#}"), run.replay.clone());
          failed = true;
        }
        Err(p) => {
          rep.violation(&format!("{}/update-panic/{}", sc.prop, panic_signature(&p)), format!("height {height}: update() panicked: {p}"), run.replay.clone());
          failed = true;
        }
      }
      if failed {
        break;
      }
      match run.index.block_count() {
        Ok(c) if c == run.model.height() => {}
        other => {
          rep.inconclusive(format!("index height {other:?} != chain height {}", run.model.height()));
          break;
        }
      }
      match sc.prop {
        "C01" => audit_c01(&run, rep),
        "C02" => audit_c02(&run, &mut rng, rep),
        "C17" => audit_c17(&run, rep),
        "C03" | "C04" | "C05" | "C06" | "C07" => {
          if let Some(snap) = chain_insc::snapshot(&run, rep) {
            match sc.prop {
              "C03" => chain_insc::audit_c03(&run, &snap, rep),
              "C04" => chain_insc::audit_c04(&run, &snap, rep),
              "C05" => chain_insc::audit_c05(&run, &snap, jubilee_height(sc.network), rep),
              "C06" => chain_insc::audit_c06(&run, &snap, rep),
              _ => chain_insc::audit_c07(&run, &snap, rep),
            }
          }
        }
        "C16" => {
          rep.eval();
          rep.count("updates_ok");
          rep.count("audits");
        }
        "C08" => chain_runes::audit_c08(&run, rep),
        "C09" => {
          chain_runes::audit_c09(&run, rep);
          if let Some(c) = &collector {
            match c.snapshot() {
              Some(events) => {
                chain_runes::compare_rune_events(&run, &events[events_mark..], log_mark, rep);
                events_mark = events.len();
                log_mark = run.model.runes.log.len();
              }
              None => rep.inconclusive("event drain thread did not catch up within 30 s"),
            }
          }
        }
        "C10" => chain_runes::audit_c10(&run, rep),
        "C11" => {
          let stats = run.index.verif_inscription_tables().map(|t| t.statistics).unwrap_or_default();
          chain_runes::audit_c11(&run, &stats, rep);
        }
        "C37" => {
          // replay the whole stream from the start at a few points of the chain
          if step == sc.blocks || step % (sc.audit_every * 7) == 0 {
            match collector.as_ref().unwrap().snapshot() {
              Some(events) => {
                let snap = chain_insc::snapshot(&run, rep);
                audit_c37(&run, &events, snap.as_ref(), rep);
              }
              None => rep.inconclusive("event drain thread did not catch up within 30 s"),
            }
          }
        }
        _ => unreachable!(),
      }
      if !ctx.time_left() && ctx.only_case.is_none() {
        break;
      }
    }
    rep.distinct(&(sc.index.label(), shape.0.min(40), shape.1.min(10), shape.2.min(10), shape.3.min(5), run.model.sats.lost.len().min(20)));
    for (reason, n) in &run.model.runes.rejected {
      rep.add(&format!("etchings_rejected_{reason}"), *n);
    }
    rep.add("runes_etched", run.model.runes.entries.len() as u64);
    rep.add("inscriptions_created", run.model.insc.list.len() as u64);
    rep.add("inscriptions_unbound", run.model.insc.list.iter().filter(|m| m.sat.is_none()).count() as u64);
    rep.add("inscriptions_fee_spent_at_reveal", run.model.insc.list.iter().filter(|m| m.fee_spent_at_reveal).count() as u64);
    rep.add("inscriptions_on_inscribed_sat", run.model.insc.list.iter().filter(|m| m.sat_had_earlier).count() as u64);
    if rep.want_sample() {
      let last = run.model.blocks.last().unwrap();
      rep.sample(json!({
        "index": sc.index.label(),
        "blocks": run.model.height(),
        "utxos": run.model.sats.utxos.len(),
        "lost_ranges": run.model.sats.lost.len(),
        "inscriptions": run.model.insc.list.len(),
        "runes": run.model.runes.entries.len(),
        "rune_balances": run.model.runes.balances.len(),
        "last_block": {"txs": last.txdata.len(), "coinbase_outputs": last.txdata[0].output.iter().map(|o| o.value.to_sat()).collect::<Vec<_>>(), "first_tx": last.txdata.get(1).map(bitcoin::consensus::encode::serialize_hex)},
      }));
    }
    drop(run);
    drop(collector);
    ord::verif::set_first_heights(None, None);
    let _ = std::fs::remove_dir_all(&dir);
  }
}
