//! C27 — inscription envelopes round-trip and envelope parsing is total.
//!
//! Monitors:
//!  * round trip: generated `Inscription` values (every field subset, sizes
//!    around the 520-byte push limit, several per script, several inputs,
//!    arbitrary script prefix / suffix / witness shape) are written with ord's
//!    own reveal-script builder and parsed back with
//!    `ParsedEnvelope::from_transaction`; fields, order, input and offset are
//!    compared with what was written;
//!  * compact encodings: pointer / delegate / parent / rune values produced by
//!    `Inscription::new` are compared with an independent encoder and must
//!    decode to the value given;
//!  * totality: mutated reveal scripts and random witnesses are parsed under
//!    `catch`, and every accessor of the parsed inscriptions is called.

use crate::{ctx::Ctx, gen_insc::{id_value, push}, report::{Report, catch, panic_signature}, rng::Rng};
use bitcoin::{
  Amount, OutPoint, ScriptBuf, Sequence, Transaction, TxIn, TxOut, Txid, Witness,
  absolute::LockTime, hashes::Hash, script, transaction::Version,
};
use ord::{Chain, Inscription, InscriptionId, ParsedEnvelope, Properties};
use ordinals::Rune;
use serde_json::json;

fn sized(rng: &mut Rng, allow_big: bool) -> usize {
  match rng.below(if allow_big { 14 } else { 10 }) {
    0 => 1,
    1 => rng.usize(1, 4),
    2 => rng.usize(74, 77),   // direct push / PUSHDATA1 boundary
    3 => rng.usize(254, 257), // PUSHDATA1 / PUSHDATA2 boundary
    4 => rng.usize(519, 521),
    5 => rng.usize(1039, 1041),
    6 => rng.usize(1, 40),
    7 => rng.usize(1, 40),
    8 => rng.usize(1, 600),
    9 => rng.usize(1, 3000),
    10 => 520 * rng.usize(1, 5),
    11 => rng.usize(65_534, 65_537), // PUSHDATA2 / PUSHDATA4 boundary
    12 => rng.usize(3_000, 40_000),
    _ => rng.usize(100_000, 400_000),
  }
}

fn value(rng: &mut Rng, allow_big: bool) -> Vec<u8> {
  let n = sized(rng, allow_big);
  match rng.below(6) {
    0 => vec![0u8; n],
    1 => vec![rng.below(256) as u8; n],
    2 => {
      // bytes that look like script: opcodes, OP_ENDIF, OP_IF, "ord"
      let alphabet = [0x00u8, 0x63, 0x68, 0x51, 0x4f, 0x4c, 0x4d, 0x4e, b'o', b'r', b'd', 0x03];
      (0..n).map(|_| *rng.pick(&alphabet)).collect()
    }
    _ => rng.bytes(n),
  }
}

fn opt(rng: &mut Rng, num: u64, den: u64, allow_big: bool) -> Option<Vec<u8>> {
  rng.chance(num, den).then(|| value(rng, allow_big))
}

fn gen_id(rng: &mut Rng) -> InscriptionId {
  let index = match rng.below(10) {
    0 => 0,
    1 => 255,
    2 => 256,
    3 => 65_535,
    4 => 65_536,
    5 => 1 << 24,
    6 => u32::MAX,
    7 => (1u32 << rng.below(32)).wrapping_sub(rng.below(2) as u32),
    _ => rng.next_u32() >> rng.below(32),
  };
  let txid = match rng.below(5) {
    0 => Txid::all_zeros(),
    1 => Txid::from_byte_array([0xff; 32]),
    2 => {
      let mut b: [u8; 32] = rng.bytes(32).try_into().unwrap();
      b[31] = 0; // trailing zero bytes of the txid must not be trimmed
      b[30] = 0;
      Txid::from_byte_array(b)
    }
    _ => Txid::from_byte_array(rng.bytes(32).try_into().unwrap()),
  };
  InscriptionId { txid, index }
}

fn gen_inscription(rng: &mut Rng) -> Inscription {
  let big = rng.chance(1, 12);
  let sparse = rng.chance(1, 3);
  let (n, d) = if sparse { (1, 4) } else { (2, 3) };
  let n_parents = match rng.below(8) {
    0..=3 => 0,
    4 | 5 => 1,
    6 => rng.usize(2, 4),
    _ => rng.usize(2, 12),
  };
  Inscription {
    body: rng.chance(3, 4).then(|| if rng.chance(1, 10) { Vec::new() } else { value(rng, big) }),
    content_encoding: opt(rng, n, d, false),
    content_type: opt(rng, n + 1, d + 1, false),
    delegate: if rng.chance(1, 2) { rng.chance(n, d).then(|| id_value(&gen_id(rng))) } else { opt(rng, n, d, false) },
    duplicate_field: false,
    incomplete_field: false,
    metadata: opt(rng, n, d, big),
    metaprotocol: opt(rng, n, d, false),
    parents: (0..n_parents).map(|_| if rng.chance(2, 3) { id_value(&gen_id(rng)) } else { value(rng, false) }).collect(),
    pointer: if rng.chance(1, 2) { rng.chance(n, d).then(|| Inscription::pointer_value(rng.log_u64().max(1))) } else { opt(rng, n, d, false) },
    properties: opt(rng, n, d, big),
    property_encoding: opt(rng, n, d, false),
    rune: opt(rng, n, d, false),
    unrecognized_even_field: false,
  }
}

fn data_fields(i: &Inscription) -> serde_json::Value {
  let h = |v: &Option<Vec<u8>>| v.as_ref().map(|b| if b.len() > 48 { format!("{}..({} bytes)", hex::encode(&b[..24]), b.len()) } else { hex::encode(b) });
  json!({
    "body": h(&i.body), "content_encoding": h(&i.content_encoding), "content_type": h(&i.content_type),
    "delegate": h(&i.delegate), "metadata": h(&i.metadata), "metaprotocol": h(&i.metaprotocol),
    "parents": i.parents.iter().map(|p| h(&Some(p.clone()))).collect::<Vec<_>>(), "pointer": h(&i.pointer),
    "properties": h(&i.properties), "property_encoding": h(&i.property_encoding), "rune": h(&i.rune),
    "flags": [i.duplicate_field, i.incomplete_field, i.unrecognized_even_field],
  })
}

/// first differing data field, if any
fn diff(want: &Inscription, got: &Inscription) -> Option<&'static str> {
  if want.body != got.body {
    return Some("body");
  }
  if want.content_encoding != got.content_encoding {
    return Some("content_encoding");
  }
  if want.content_type != got.content_type {
    return Some("content_type");
  }
  if want.delegate != got.delegate {
    return Some("delegate");
  }
  if want.metadata != got.metadata {
    return Some("metadata");
  }
  if want.metaprotocol != got.metaprotocol {
    return Some("metaprotocol");
  }
  if want.parents != got.parents {
    return Some("parents");
  }
  if want.pointer != got.pointer {
    return Some("pointer");
  }
  if want.properties != got.properties {
    return Some("properties");
  }
  if want.property_encoding != got.property_encoding {
    return Some("property_encoding");
  }
  if want.rune != got.rune {
    return Some("rune");
  }
  if got.incomplete_field {
    return Some("incomplete_field-set");
  }
  if got.unrecognized_even_field {
    return Some("unrecognized_even_field-set");
  }
  None
}

/// Script fragments that are valid instructions, contain no empty push and
/// therefore can neither start an envelope nor make the parser bail out.
fn filler(rng: &mut Rng, out: &mut Vec<u8>) {
  for _ in 0..rng.usize(0, 5) {
    match rng.below(6) {
      0 => {
        push(out, &rng.bytes(32));
        out.push(0xac); // OP_CHECKSIG
      }
      1 => {
        let n = rng.usize(1, 600);
        push(out, &rng.bytes(n));
      }
      2 => out.push(*rng.pick(&[0x51u8, 0x60, 0x75, 0x76, 0x87, 0x88, 0xac, 0x69, 0x6a, 0xb1, 0x63, 0x68, 0x67])),
      3 => {
        // "ord" pushed outside of an envelope
        push(out, b"ord");
      }
      4 => {
        // OP_IF "ord" without the leading empty push
        out.push(0x63);
        push(out, b"ord");
        out.push(0x68);
      }
      _ => {
        // non-minimal push encodings of non-empty data
        let n = rng.usize(1, 60);
        let d = rng.bytes(n);
        match rng.below(3) {
          0 => out.extend([0x4c, n as u8]),
          1 => {
            out.push(0x4d);
            out.extend((n as u16).to_le_bytes())
          }
          _ => {
            out.push(0x4e);
            out.extend((n as u32).to_le_bytes())
          }
        }
        out.extend(d);
      }
    }
  }
}

fn witness_for(rng: &mut Rng, script: Vec<u8>) -> (Witness, &'static str) {
  let mut w = Witness::new();
  let shape = rng.below(5);
  let control: Vec<u8> = match rng.below(4) {
    0 => Vec::new(),
    1 => vec![0xc0],
    2 => {
      let mut c = vec![0xc0u8 | rng.below(2) as u8];
      let n = 32 + 32 * rng.usize(0, 3);
      c.extend(rng.bytes(n));
      c
    }
    _ => {
      // any leaf version: ord looks at the script whatever the version
      let mut c = vec![rng.below(256) as u8];
      if c[0] == 0x50 {
        c[0] = 0x51;
      }
      c.extend(rng.bytes(32));
      c
    }
  };
  let label = match shape {
    0 => {
      w.push(script);
      w.push(control);
      "script+control"
    }
    1 => {
      for _ in 0..rng.usize(1, 4) {
        let n = rng.usize(0, 70);
        w.push(rng.bytes(n));
      }
      w.push(script);
      w.push(control);
      "stack+script+control"
    }
    2 => {
      w.push(script);
      w.push(control);
      let mut annex = vec![0x50u8];
      annex.extend(rng.some_bytes(0, 40));
      w.push(annex);
      "script+control+annex"
    }
    3 => {
      w.push(rng.bytes(64));
      w.push(script);
      w.push(control);
      let mut annex = vec![0x50u8];
      annex.extend(rng.some_bytes(0, 8));
      w.push(annex);
      "sig+script+control+annex"
    }
    _ => {
      w.push(script);
      w.push(control);
      "script+control"
    }
  };
  (w, label)
}

fn tx_with(witnesses: Vec<Witness>) -> Transaction {
  Transaction {
    version: Version::TWO,
    lock_time: LockTime::ZERO,
    input: witnesses
      .into_iter()
      .enumerate()
      .map(|(i, witness)| TxIn {
        previous_output: OutPoint { txid: Txid::from_byte_array([i as u8 + 1; 32]), vout: i as u32 },
        script_sig: ScriptBuf::new(),
        sequence: Sequence::ENABLE_RBF_NO_LOCKTIME,
        witness,
      })
      .collect(),
    output: vec![TxOut { value: Amount::from_sat(10_000), script_pubkey: ScriptBuf::new() }],
  }
}

fn exercise_accessors(envelopes: &[ParsedEnvelope]) -> usize {
  let mut n = 0;
  for e in envelopes {
    let i = &e.payload;
    n += usize::from(i.pointer().is_some());
    n += usize::from(i.delegate().is_some());
    n += i.parents().len();
    n += usize::from(i.metadata().is_some());
    n += usize::from(i.metaprotocol().is_some());
    n += usize::from(i.content_type().is_some());
    n += usize::from(i.content_encoding().is_some());
    n += usize::from(i.content_length().is_some());
    n += usize::from(i.hidden());
    let _ = i.media();
    n += i.verif_properties().gallery.len();
  }
  n
}

fn roundtrip_case(rng: &mut Rng, rep: &mut Report, replay: &serde_json::Value) {
  let n_inputs = match rng.below(6) {
    0 => 2,
    1 => 3,
    _ => 1,
  };
  let mut written: Vec<Vec<Inscription>> = Vec::new();
  let mut witnesses = Vec::new();
  let mut shape = Vec::new();
  let mut stutter_first: Vec<bool> = Vec::new();
  for _ in 0..n_inputs {
    let k = match rng.below(8) {
      0 => 0,
      1 | 2 => rng.usize(2, 4),
      3 => rng.usize(5, 8),
      _ => 1,
    };
    let inscriptions: Vec<Inscription> = (0..k).map(|_| gen_inscription(rng)).collect();
    let mut prefix = Vec::new();
    filler(rng, &mut prefix);
    // a prefix ending in an empty push: the first envelope stutters (a flag
    // outside the inscription's fields), the payload must still come back
    let stutter = k > 0 && rng.chance(1, 12);
    if stutter {
      prefix.push(0x00);
    }
    stutter_first.push(stutter);
    let builder = script::Builder::from(prefix);
    let built = catch(|| {
      if rng.chance(1, 2) || k == 0 {
        Inscription::append_batch_reveal_script_to_builder(&inscriptions, builder).into_script()
      } else {
        let mut b = builder;
        for i in &inscriptions {
          b = i.append_reveal_script_to_builder(b);
        }
        b.into_script()
      }
    });
    let script = match built {
      Ok(s) => s,
      Err(p) => {
        rep.violation(&format!("C27/build/panic/{}", panic_signature(&p)), p, replay.clone());
        return;
      }
    };
    let mut bytes = script.into_bytes();
    filler(rng, &mut bytes);
    let (w, label) = witness_for(rng, bytes);
    shape.push((k, label, stutter));
    witnesses.push(w);
    written.push(inscriptions);
  }
  // an input without a script-path witness in between
  if rng.chance(1, 6) {
    let at = rng.usize(0, witnesses.len());
    let mut w = Witness::new();
    if rng.chance(1, 2) {
      w.push(rng.bytes(64));
    }
    witnesses.insert(at, w);
    written.insert(at, Vec::new());
    stutter_first.insert(at, false);
    shape.insert(at, (0, "key-path", false));
  }
  rep.distinct(&shape);
  let tx = tx_with(witnesses);
  rep.eval();
  let parsed = match catch(|| ParsedEnvelope::from_transaction(&tx)) {
    Ok(p) => p,
    Err(p) => {
      rep.violation(&format!("C27/parse/panic/{}", panic_signature(&p)), p, replay.clone());
      return;
    }
  };
  let want: Vec<(u32, u32, &Inscription, bool)> = written
    .iter()
    .enumerate()
    .flat_map(|(input, v)| {
      let st = stutter_first[input];
      v.iter().enumerate().map(move |(offset, i)| (input as u32, offset as u32, i, st))
    })
    .collect();
  if parsed.len() != want.len() {
    rep.violation(
      "C27/roundtrip/envelope-count",
      format!("{} inscriptions written ({:?}), {} envelopes parsed", want.len(), shape, parsed.len()),
      replay.clone(),
    );
    return;
  }
  for ((input, offset, w, stutter), got) in want.iter().zip(parsed.iter()) {
    rep.eval();
    if got.input != *input || got.offset != *offset {
      rep.violation(
        "C27/roundtrip/order-or-index",
        format!("written as input {input} offset {offset}, parsed as input {} offset {} ({:?})", got.input, got.offset, shape),
        replay.clone(),
      );
      continue;
    }
    if let Some(field) = diff(w, &got.payload) {
      rep.violation(
        &format!("C27/roundtrip/field-differs/{field}"),
        format!("written {}\nparsed  {}", data_fields(w), data_fields(&got.payload)),
        replay.clone(),
      );
      continue;
    }
    // after a stuttering prefix ord flags every later envelope of the script
    // as well; the flag is not one of the inscription's fields, so it is only
    // checked for scripts without such a prefix
    if got.pushnum || (!*stutter && got.stutter) {
      rep.violation(
        "C27/roundtrip/envelope-flag",
        format!("pushnum={} stutter={} (expected false/false; prefix stutters: {stutter}) for {}", got.pushnum, got.stutter, data_fields(w)),
        replay.clone(),
      );
      continue;
    }
    rep.count("roundtrip_ok");
    let chunks = |v: &Option<Vec<u8>>| v.as_ref().map(|b| b.len().div_ceil(520)).unwrap_or(0);
    if chunks(&w.metadata) > 1 || chunks(&w.properties) > 1 {
      rep.count("roundtrip_ok_chunked_field");
    }
    if w.parents.len() > 1 {
      rep.count("roundtrip_ok_several_parents");
    }
    if w.body.as_ref().is_some_and(|b| b.len() > 520) {
      rep.count("roundtrip_ok_chunked_body");
    }
    if *offset > 0 {
      rep.count("roundtrip_ok_later_in_script");
    }
    if *input > 0 {
      rep.count("roundtrip_ok_later_input");
    }
  }
  if rep.want_sample()
    && let Some((_, _, w, _)) = want.first()
  {
    rep.sample(json!({"shape": format!("{shape:?}"), "first_inscription": data_fields(w)}));
  }
}

struct Files {
  _dir: tempfile::TempDir,
  paths: Vec<(std::path::PathBuf, Vec<u8>)>,
}

fn compact_case(rng: &mut Rng, rep: &mut Report, replay: &serde_json::Value, files: &Files) {
  rep.eval();
  let pointer = rng.chance(2, 3).then(|| match rng.below(5) {
    0 => 0,
    1 => u64::MAX,
    2 => (1u64 << (8 * rng.below(8))).wrapping_sub(rng.below(2)),
    _ => rng.log_u64(),
  });
  let delegate = rng.chance(1, 2).then(|| gen_id(rng));
  let parents: Vec<InscriptionId> = (0..*rng.pick(&[0usize, 0, 1, 1, 2, 5])).map(|_| gen_id(rng)).collect();
  let rune = rng.chance(1, 2).then(|| Rune(rng.edge_u128()));
  let metaprotocol = rng.chance(1, 3).then(|| "méta-protocol".repeat(rng.usize(1, 3)));
  let metadata = rng.chance(1, 3).then(|| {
    let n = sized(rng, false);
    rng.bytes(n)
  });
  let file = rng.chance(2, 3).then(|| rng.pick(&files.paths).clone());
  let compress = rng.chance(1, 3);
  let built = catch(|| {
    Inscription::new(
      Chain::Regtest,
      compress,
      delegate,
      metadata.clone(),
      metaprotocol.clone(),
      parents.clone(),
      file.as_ref().map(|f| f.0.clone()),
      pointer,
      Properties::default(),
      rune,
    )
  });
  let inscription = match built {
    Err(p) => {
      rep.violation(&format!("C27/new/panic/{}", panic_signature(&p)), p, replay.clone());
      return;
    }
    Ok(Err(e)) => {
      rep.count("new_rejected");
      rep.observe(format!("Inscription::new rejected: {e}"));
      return;
    }
    Ok(Ok(i)) => i,
  };
  // independent encoders
  let mut bad = Vec::new();
  let want_pointer = pointer.map(|p| {
    let mut b = p.to_le_bytes().to_vec();
    while b.last() == Some(&0) {
      b.pop();
    }
    b
  });
  if inscription.pointer != want_pointer {
    bad.push(format!("pointer {pointer:?} encoded as {:?}", inscription.pointer));
  }
  if inscription.delegate != delegate.as_ref().map(id_value) {
    bad.push(format!("delegate {delegate:?} encoded as {:?}", inscription.delegate));
  }
  if inscription.parents != parents.iter().map(id_value).collect::<Vec<_>>() {
    bad.push(format!("parents {parents:?} encoded as {:?}", inscription.parents));
  }
  let want_rune = rune.map(|r| {
    let mut b = r.0.to_le_bytes().to_vec();
    while b.last() == Some(&0) {
      b.pop();
    }
    b
  });
  if inscription.rune != want_rune {
    bad.push(format!("rune {rune:?} encoded as {:?}", inscription.rune));
  }
  if !compress && inscription.body != file.as_ref().map(|f| f.1.clone()) {
    bad.push("body differs from the file".into());
  }
  if !bad.is_empty() {
    rep.violation("C27/compact/encoding-differs", bad.join("; "), replay.clone());
    return;
  }
  // through a script and back, then through the decoders
  let script = inscription.append_reveal_script_to_builder(script::Builder::new()).into_script();
  let (w, _) = witness_for(rng, script.into_bytes());
  let tx = tx_with(vec![w]);
  match catch(|| {
    let parsed = ParsedEnvelope::from_transaction(&tx);
    parsed.into_iter().map(|e| (e.payload.pointer(), e.payload.delegate(), e.payload.parents(), e.payload.rune.clone(), e.payload.metaprotocol().map(str::to_string), e.payload)).collect::<Vec<_>>()
  }) {
    Err(p) => rep.violation(&format!("C27/compact/panic/{}", panic_signature(&p)), p, replay.clone()),
    Ok(v) if v.len() != 1 => rep.violation("C27/compact/envelope-count", format!("{} envelopes parsed for one inscription", v.len()), replay.clone()),
    Ok(v) => {
      let (p, d, ps, r, mp, payload) = &v[0];
      let mut bad = Vec::new();
      if *p != pointer {
        bad.push(format!("pointer {pointer:?} decoded as {p:?}"));
      }
      if *d != delegate {
        bad.push(format!("delegate {delegate:?} decoded as {d:?}"));
      }
      if *ps != parents {
        bad.push(format!("parents {parents:?} decoded as {ps:?}"));
      }
      if *r != want_rune {
        bad.push(format!("rune commitment {want_rune:?} parsed as {r:?}"));
      }
      if *mp != metaprotocol {
        bad.push(format!("metaprotocol {metaprotocol:?} parsed as {mp:?}"));
      }
      if let Some(f) = diff(&inscription, payload) {
        bad.push(format!("field {f} differs after the round trip"));
      }
      if bad.is_empty() {
        rep.count("compact_ok");
        rep.distinct(&("compact", pointer.map(|p| 64 - p.leading_zeros()), delegate.map(|d| 32 - d.index.leading_zeros()), parents.len(), rune.is_some(), file.is_some(), compress));
      } else {
        rep.violation("C27/compact/decoding-differs", bad.join("; "), replay.clone());
      }
    }
  }
}

fn hostile_script(rng: &mut Rng) -> Vec<u8> {
  let mut s = Vec::new();
  match rng.below(8) {
    0 => {
      let n = rng.usize(0, 300);
      s = rng.bytes(n)
    }
    1 => {
      // a valid reveal script, damaged
      let k = rng.usize(1, 3);
      let v: Vec<Inscription> = (0..k).map(|_| gen_inscription(rng)).collect();
      s = Inscription::append_batch_reveal_script_to_builder(&v, script::Builder::new()).into_script().into_bytes();
      for _ in 0..rng.usize(1, 4) {
        if s.is_empty() {
          break;
        }
        let at = rng.usize(0, s.len() - 1);
        match rng.below(5) {
          0 => s.truncate(at),
          1 => s[at] = rng.below(256) as u8,
          2 => s.insert(at, *rng.pick(&[0x00u8, 0x63, 0x68, 0x4f, 0x51, 0x60, 0x4c, 0x4d, 0x4e, 0x67])),
          3 => {
            s.remove(at);
          }
          _ => {
            let end = (at + rng.usize(1, 40)).min(s.len());
            s.drain(at..end);
          }
        }
      }
    }
    2 => {
      // envelope made of push numbers, negative one, nested ifs
      s.extend([0x00, 0x63]);
      push(&mut s, b"ord");
      for _ in 0..rng.usize(0, 40) {
        match rng.below(6) {
          0 => s.push(0x4f),
          1 => s.push(0x51 + rng.below(16) as u8),
          2 => s.push(0x00),
          3 => {
            let n = rng.usize(0, 30);
            push(&mut s, &rng.bytes(n))
          }
          4 => s.extend([0x00, 0x63]),
          _ => push(&mut s, &[rng.below(256) as u8]),
        }
      }
      if rng.chance(3, 4) {
        s.push(0x68);
      }
    }
    3 => {
      // pushdata with lengths beyond the script
      s.extend([0x00, 0x63]);
      push(&mut s, b"ord");
      match rng.below(3) {
        0 => s.extend([0x4c, 0xff]),
        1 => s.extend([0x4d, 0xff, 0xff]),
        _ => s.extend([0x4e, 0xff, 0xff, 0xff, 0xff]),
      }
      let n = rng.usize(0, 20);
      s.extend(rng.bytes(n));
    }
    4 => {
      // thousands of tiny envelopes / stutters
      for _ in 0..rng.usize(100, 3000) {
        match rng.below(4) {
          0 => s.push(0x00),
          1 => s.extend([0x00, 0x63]),
          2 => {
            s.extend([0x00, 0x63]);
            push(&mut s, b"ord");
            s.push(0x68);
          }
          _ => s.push(0x68),
        }
      }
    }
    5 => {
      // duplicate, incomplete, unknown fields with empty keys and values
      s.extend([0x00, 0x63]);
      push(&mut s, b"ord");
      for _ in 0..rng.usize(0, 30) {
        let n = rng.usize(0, 3);
        let tag = rng.bytes(n);
        push(&mut s, &tag);
        if rng.chance(9, 10) {
          let n = rng.usize(0, 50);
          push(&mut s, &rng.bytes(n));
        }
      }
      s.push(0x68);
    }
    6 => {
      // id-like values of every length around 32..37 in parent/delegate
      s.extend([0x00, 0x63]);
      push(&mut s, b"ord");
      for tag in [3u8, 3, 11, 2, 2, 13, 17, 19, 5] {
        push(&mut s, &[tag]);
        let n = *rng.pick(&[0usize, 1, 8, 9, 31, 32, 33, 34, 35, 36, 37, 40]);
        let mut v = rng.bytes(n);
        if rng.chance(1, 2)
          && let Some(l) = v.last_mut()
        {
          *l = 0;
        }
        push(&mut s, &v);
      }
      s.push(0x68);
    }
    _ => {
      // a script of several hundred kilobytes of one byte value
      let n = rng.usize(100_000, 900_000);
      s = vec![*rng.pick(&[0x00u8, 0x63, 0x68, 0x01, 0x4c]); n];
    }
  }
  s
}

fn totality_case(rng: &mut Rng, rep: &mut Report, replay: &serde_json::Value) {
  let n_inputs = rng.usize(1, 3);
  let mut witnesses = Vec::new();
  let mut classes = Vec::new();
  for _ in 0..n_inputs {
    let w = match rng.below(6) {
      0 => {
        // arbitrary stack
        let mut w = Witness::new();
        for _ in 0..rng.usize(0, 5) {
          let n = match rng.below(4) {
            0 => 0,
            1 => 1,
            _ => rng.usize(0, 120),
          };
          let mut item = rng.bytes(n);
          if rng.chance(1, 4) && !item.is_empty() {
            item[0] = 0x50;
          }
          w.push(item);
        }
        classes.push("stack");
        w
      }
      _ => {
        let s = hostile_script(rng);
        let (w, label) = witness_for(rng, s);
        classes.push(label);
        w
      }
    };
    witnesses.push(w);
  }
  let tx = tx_with(witnesses);
  rep.eval();
  match catch(|| {
    let parsed = ParsedEnvelope::from_transaction(&tx);
    let n = exercise_accessors(&parsed);
    (parsed.len(), n)
  }) {
    Ok((envelopes, _)) => {
      rep.count("hostile_parsed");
      rep.add("hostile_envelopes_found", envelopes as u64);
      rep.distinct(&("hostile", classes, envelopes.min(6)));
    }
    Err(p) => rep.violation(
      &format!("C27/parse/panic/{}", panic_signature(&p)),
      format!("{p}; witnesses: {:?}", tx.input.iter().map(|i| i.witness.iter().map(|e| hex::encode(&e[..e.len().min(80)])).collect::<Vec<_>>()).collect::<Vec<_>>()),
      replay.clone(),
    ),
  }
}

pub fn run(ctx: &Ctx, rep: &mut Report) {
  let dir = tempfile::Builder::new().prefix("c27").tempdir_in(if ctx.scratch.is_empty() { "/tmp" } else { &ctx.scratch }).unwrap();
  let mut paths = Vec::new();
  let mut seed_rng = ctx.rng(u64::MAX - 1);
  for (name, len) in [("a.txt", 0usize), ("b.txt", 11), ("c.json", 600), ("d.png", 3000), ("e.html", 520), ("f.bin", 70_000), ("g.svg", 1041), ("h.js", 521)] {
    let p = dir.path().join(name);
    let body = if name.ends_with(".txt") || name.ends_with(".html") { vec![b'a' + (len % 26) as u8; len] } else { seed_rng.bytes(len) };
    std::fs::write(&p, &body).unwrap();
    paths.push((p, body));
  }
  let files = Files { _dir: dir, paths };

  if ctx.deterministic_part() {
    // every pointer byte length and every index byte length, exhaustively on
    // the boundaries
    let replay = ctx.replay_info(u64::MAX);
    for bits in 0..=64u32 {
      for d in [0u64, 1] {
        let p = if bits == 64 { u64::MAX } else { (1u64 << bits).wrapping_sub(d) };
        rep.eval();
        let i = Inscription { pointer: Some(Inscription::pointer_value(p)), ..Default::default() };
        if i.pointer() != Some(p) {
          rep.violation("C27/compact/pointer", format!("pointer {p} -> {:?} -> {:?}", i.pointer, i.pointer()), replay.clone());
        } else {
          rep.count("pointer_boundaries_ok");
        }
      }
    }
    for bits in 0..=32u32 {
      for d in [0u32, 1] {
        let index = if bits == 32 { u32::MAX } else { (1u32 << bits).wrapping_sub(d) };
        rep.eval();
        let id = InscriptionId { txid: Txid::from_byte_array([0x11; 32]), index };
        let i = Inscription { delegate: Some(id_value(&id)), parents: vec![id_value(&id)], ..Default::default() };
        if i.delegate() != Some(id) || i.parents() != vec![id] {
          rep.violation("C27/compact/inscription-id", format!("id {id} -> {:?} -> {:?}", i.delegate, i.delegate()), replay.clone());
        } else {
          rep.count("id_boundaries_ok");
        }
      }
    }
  }

  for case in ctx.cases(u64::MAX) {
    let mut rng = ctx.rng(case);
    let replay = ctx.replay_info(case);
    match rng.below(10) {
      0..=4 => roundtrip_case(&mut rng, rep, &replay),
      5 | 6 => compact_case(&mut rng, rep, &replay, &files),
      _ => totality_case(&mut rng, rep, &replay),
    }
  }
}
