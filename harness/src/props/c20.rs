//! C20 — ordinal-aware sends never misdirect or burn inscriptions.
//!
//! Monitor: `TransactionBuilder::new(..).build_transaction()` on generated
//! wallets; every clause of the statement is re-derived from the inputs and
//! the returned transaction, independently of the builder's own assertions
//! (own sat-offset walk, own virtual-size formula, own fee rounding). A panic
//! is a violation; an `Err` is always acceptable.

use crate::{ctx::Ctx, report::{Report, catch, panic_signature}, rng::Rng};
use bitcoin::{Address, Amount, Network, OutPoint, ScriptBuf, Transaction, TxOut, Txid, hashes::Hash};
use ord::{FeeRate, InscriptionId, Target, TransactionBuilder};
use ordinals::SatPoint;
use serde_json::json;
use std::collections::{BTreeMap, BTreeSet};

const MAX_MONEY: u64 = 21_000_000 * 100_000_000;

fn script_of(kind: u64, rng: &mut Rng) -> ScriptBuf {
  let mut s = Vec::new();
  match kind {
    0 => {
      // P2TR
      s.extend([0x51, 0x20]);
      s.extend(rng.bytes(32));
    }
    1 => {
      // P2WPKH
      s.extend([0x00, 0x14]);
      s.extend(rng.bytes(20));
    }
    2 => {
      // P2WSH
      s.extend([0x00, 0x20]);
      s.extend(rng.bytes(32));
    }
    3 => {
      // P2PKH
      s.extend([0x76, 0xa9, 0x14]);
      s.extend(rng.bytes(20));
      s.extend([0x88, 0xac]);
    }
    4 => {
      // P2SH
      s.extend([0xa9, 0x14]);
      s.extend(rng.bytes(20));
      s.push(0x87);
    }
    5 => {
      // OP_RETURN (burn)
      s.push(0x6a);
      if rng.chance(1, 2) {
        let n = rng.usize(1, 40);
        s.push(n as u8);
        s.extend(rng.bytes(n));
      }
    }
    6 => {
      // future witness version
      s.extend([0x52, 0x20]);
      s.extend(rng.bytes(32));
    }
    _ => {
      // not an address at all
      s = rng.some_bytes(0, 30);
    }
  }
  ScriptBuf::from_bytes(s)
}

fn gen_value(rng: &mut Rng) -> u64 {
  match rng.below(12) {
    0 => *rng.pick(&[294u64, 330, 546, 547, 1000]),
    1 => *rng.pick(&[9_999u64, 10_000, 10_001, 19_999, 20_000, 20_001]),
    2 => rng.range(294, 2_000),
    3 => rng.range(2_000, 50_000),
    4 => rng.range(50_000, 100_000_000),
    5 => MAX_MONEY - rng.below(3),
    6 | 7 => {
      // log-uniform from dust to 21M BTC
      let bits = rng.range(9, 51);
      (rng.next_u64() >> (64 - bits)).clamp(294, MAX_MONEY)
    }
    _ => rng.range(5_000, 40_000),
  }
}

fn gen_fee_rate(rng: &mut Rng) -> f64 {
  match rng.below(14) {
    0 => 0.0,
    1 => 1.0,
    2 => rng.below(1000) as f64 / 1000.0,
    3 => 1.0 + rng.below(4000) as f64 / 1000.0,
    4 => rng.range(1, 100) as f64,
    5 => rng.range(100, 10_000) as f64,
    6 => 1e12,
    7 => 1e300,
    8 => f64::MAX,
    9 => f64::MIN_POSITIVE,
    10 => 10f64.powi(rng.range(0, 20) as i32) * (1.0 + rng.below(1000) as f64 / 1000.0),
    11 => 0.5 + rng.below(10) as f64, // exact .5 products: rounding direction
    _ => rng.range(1, 30) as f64 + rng.below(100) as f64 / 100.0,
  }
}

fn gen_amount(rng: &mut Rng, wallet_total: u64) -> u64 {
  match rng.below(10) {
    0 => *rng.pick(&[0u64, 1, 293, 294, 329, 330, 545, 546]),
    1 => *rng.pick(&[10_000u64, 20_000, 20_001]),
    2 => wallet_total.saturating_add(rng.below(3)).saturating_sub(1),
    3 => u64::MAX - rng.below(2),
    4 => MAX_MONEY + rng.below(2),
    5 => rng.below(wallet_total.max(1)),
    _ => rng.range(294, 60_000),
  }
}

/// Virtual size of a version-2 transaction whose inputs are key-path taproot
/// spends (one 64-byte witness element each), computed from the
/// serialisation rules rather than through the library.
fn reference_vsize(n_in: usize, outputs: &[TxOut]) -> usize {
  fn varint(n: usize) -> usize {
    if n < 0xfd {
      1
    } else if n <= 0xffff {
      3
    } else if n <= 0xffff_ffff {
      5
    } else {
      9
    }
  }
  let base = 4 + varint(n_in) + n_in * (32 + 4 + 1 + 4) + varint(outputs.len()) + outputs.iter().map(|o| 8 + varint(o.script_pubkey.len()) + o.script_pubkey.len()).sum::<usize>() + 4;
  let witness = 2 + n_in * (1 + 1 + 64);
  (base * 4 + witness).div_ceil(4)
}

fn reference_fee(rate: f64, vsize: usize) -> u64 {
  // nearest integer number of sats, saturating at u64::MAX
  (rate * vsize as f64).round() as u64
}

struct Case {
  amounts: BTreeMap<OutPoint, TxOut>,
  inscriptions: BTreeMap<SatPoint, Vec<InscriptionId>>,
  locked: BTreeSet<OutPoint>,
  runic: BTreeSet<OutPoint>,
  outgoing: SatPoint,
  recipient: ScriptBuf,
  change: [Address; 2],
  rate: f64,
  target: (&'static str, u64),
  network: Network,
}

fn gen_case(rng: &mut Rng) -> Option<Case> {
  let network = *rng.pick(&[Network::Bitcoin, Network::Testnet, Network::Regtest, Network::Signet]);
  let n = match rng.below(8) {
    0 => 1,
    1 => 2,
    2 => rng.usize(8, 12),
    _ => rng.usize(2, 7),
  };
  let wallet_scripts: Vec<ScriptBuf> = (0..3).map(|_| script_of(rng.below(2), rng)).collect();
  let mut amounts = BTreeMap::new();
  let same_value = rng.chance(1, 8).then(|| gen_value(rng));
  for i in 0..n {
    let outpoint = OutPoint { txid: Txid::from_byte_array(rng.bytes(32).try_into().unwrap()), vout: if rng.chance(1, 2) { 0 } else { rng.below(5) as u32 + i as u32 } };
    amounts.insert(outpoint, TxOut { value: Amount::from_sat(same_value.unwrap_or_else(|| gen_value(rng))), script_pubkey: rng.pick(&wallet_scripts).clone() });
  }
  let outpoints: Vec<OutPoint> = amounts.keys().copied().collect();
  let mut inscriptions: BTreeMap<SatPoint, Vec<InscriptionId>> = BTreeMap::new();
  let n_insc = match rng.below(6) {
    0 => 0,
    1 | 2 => 1,
    3 => 2,
    _ => rng.usize(2, 5),
  };
  for k in 0..n_insc {
    let op = *rng.pick(&outpoints);
    let value = amounts[&op].value.to_sat();
    let offset = match rng.below(8) {
      0 | 1 | 2 => 0,
      3 => value - 1,
      4 => rng.below(value.min(1000)),
      5 => value.saturating_sub(rng.below(700)).min(value - 1),
      6 if rng.chance(1, 4) => value + rng.below(3), // stale offset beyond the output
      _ => rng.below(value),
    };
    inscriptions.entry(SatPoint { outpoint: op, offset }).or_default().push(InscriptionId { txid: Txid::from_byte_array([k as u8 + 1; 32]), index: k as u32 });
  }
  let mut locked = BTreeSet::new();
  let mut runic = BTreeSet::new();
  for op in &outpoints {
    if rng.chance(1, 6) {
      locked.insert(*op);
    }
    if rng.chance(1, 6) {
      runic.insert(*op);
    }
  }
  // locked / runic sets may also name outputs that are not in the wallet
  if rng.chance(1, 10) {
    locked.insert(OutPoint { txid: Txid::all_zeros(), vout: 7 });
  }
  let outgoing = match rng.below(10) {
    0..=4 if !inscriptions.is_empty() => *rng.pick(&inscriptions.keys().copied().collect::<Vec<_>>()),
    5 => SatPoint { outpoint: *rng.pick(&outpoints), offset: 0 },
    6 => {
      let op = *rng.pick(&outpoints);
      SatPoint { outpoint: op, offset: rng.below(amounts[&op].value.to_sat()) }
    }
    7 => {
      let op = *rng.pick(&outpoints);
      let v = amounts[&op].value.to_sat();
      SatPoint { outpoint: op, offset: *rng.pick(&[v - 1, v, v + 1, u64::MAX]) }
    }
    8 => SatPoint { outpoint: OutPoint { txid: Txid::from_byte_array([9; 32]), vout: 0 }, offset: 0 },
    _ => {
      let op = *rng.pick(&outpoints);
      let v = amounts[&op].value.to_sat();
      SatPoint { outpoint: op, offset: rng.below(v.min(2000)) }
    }
  };
  let c0 = script_of(rng.below(2), rng);
  let c1 = if rng.chance(1, 30) { c0.clone() } else { script_of(rng.below(2), rng) };
  let change = [Address::from_script(&c0, network).ok()?, Address::from_script(&c1, network).ok()?];
  let recipient = match rng.below(12) {
    0 => c0.clone(),
    1 => script_of(7, rng),
    2 | 3 => script_of(5, rng),
    4 => rng.pick(&wallet_scripts).clone(),
    _ => script_of(rng.below(7), rng),
  };
  let total: u64 = amounts.values().map(|o| o.value.to_sat()).sum();
  let target = match rng.below(3) {
    0 => ("postage", 0),
    1 => ("value", gen_amount(rng, total)),
    _ => ("exact-postage", gen_amount(rng, total)),
  };
  Some(Case { amounts, inscriptions, locked, runic, outgoing, recipient, change, rate: gen_fee_rate(rng), target, network })
}

fn describe(c: &Case) -> serde_json::Value {
  json!({
    "utxos": c.amounts.iter().map(|(o, t)| json!({"outpoint": o.to_string(), "value": t.value.to_sat(), "locked": c.locked.contains(o), "runic": c.runic.contains(o)})).collect::<Vec<_>>(),
    "inscriptions": c.inscriptions.iter().map(|(s, ids)| json!({"satpoint": s.to_string(), "count": ids.len()})).collect::<Vec<_>>(),
    "outgoing": c.outgoing.to_string(),
    "recipient": hex::encode(c.recipient.as_bytes()),
    "change": [hex::encode(c.change[0].script_pubkey().as_bytes()), hex::encode(c.change[1].script_pubkey().as_bytes())],
    "fee_rate": format!("{:e}", c.rate),
    "target": format!("{}({})", c.target.0, c.target.1),
    "network": c.network.to_string(),
  })
}

/// All clauses of the statement, evaluated on the returned transaction.
fn judge(c: &Case, tx: &Transaction) -> Vec<(&'static str, String)> {
  let mut bad = Vec::new();
  // inputs: known, no duplicates, outgoing spent once
  let mut seen = BTreeSet::new();
  let mut input_start: BTreeMap<OutPoint, u64> = BTreeMap::new();
  let mut total_in: u128 = 0;
  for i in &tx.input {
    let Some(out) = c.amounts.get(&i.previous_output) else {
      bad.push(("spends-unknown-output", format!("{} is not a wallet output", i.previous_output)));
      return bad;
    };
    if !seen.insert(i.previous_output) {
      bad.push(("spends-output-twice", i.previous_output.to_string()));
      return bad;
    }
    input_start.insert(i.previous_output, total_in as u64);
    total_in += u128::from(out.value.to_sat());
  }
  let Some(start) = input_start.get(&c.outgoing.outpoint) else {
    bad.push(("outgoing-not-spent", format!("{} is not among the inputs", c.outgoing.outpoint)));
    return bad;
  };
  let outgoing_value = c.amounts[&c.outgoing.outpoint].value.to_sat();
  if c.outgoing.offset >= outgoing_value {
    bad.push(("outgoing-out-of-range-accepted", format!("offset {} in an output of {} sat", c.outgoing.offset, outgoing_value)));
    return bad;
  }
  let sat_pos = start + c.outgoing.offset;
  // outputs
  let total_out: u128 = tx.output.iter().map(|o| u128::from(o.value.to_sat())).sum();
  let recipients: Vec<usize> = tx.output.iter().enumerate().filter(|(_, o)| o.script_pubkey == c.recipient).map(|(i, _)| i).collect();
  if recipients.len() != 1 {
    bad.push(("recipient-output-count", format!("{} outputs pay the recipient", recipients.len())));
    return bad;
  }
  let r = recipients[0];
  let r_start: u64 = tx.output[..r].iter().map(|o| o.value.to_sat()).sum();
  let r_value = tx.output[r].value.to_sat();
  if sat_pos != r_start {
    bad.push(("outgoing-sat-not-first-of-recipient-output", format!("outgoing sat is at position {sat_pos} of the inputs, the recipient output covers [{r_start}, {})", r_start + r_value)));
  }
  // other inscriptions of spent outputs
  for (satpoint, ids) in &c.inscriptions {
    let Some(s) = input_start.get(&satpoint.outpoint) else { continue };
    if satpoint.offset >= c.amounts[&satpoint.outpoint].value.to_sat() {
      continue; // stale entry beyond the output: holds no sat of this transaction
    }
    if *satpoint == c.outgoing {
      continue;
    }
    let pos = s + satpoint.offset;
    if u128::from(pos) >= total_out {
      bad.push(("other-inscription-spent-as-fee", format!("{} inscription(s) at {satpoint} end up at position {pos} >= total output {total_out}", ids.len())));
    } else if pos >= r_start && pos < r_start + r_value {
      bad.push(("other-inscription-sent-to-recipient", format!("{} inscription(s) at {satpoint} land in the recipient output", ids.len())));
    }
  }
  // only cardinal outputs besides the outgoing one
  let inscribed: BTreeSet<OutPoint> = c.inscriptions.keys().map(|s| s.outpoint).collect();
  for i in &tx.input {
    let o = i.previous_output;
    if o == c.outgoing.outpoint {
      continue;
    }
    if c.runic.contains(&o) {
      bad.push(("spends-runic-output", o.to_string()));
    }
    if c.locked.contains(&o) {
      bad.push(("spends-locked-output", o.to_string()));
    }
    if inscribed.contains(&o) {
      bad.push(("spends-other-inscribed-output", o.to_string()));
    }
  }
  // every other output is wallet change; nothing is dust
  for (i, o) in tx.output.iter().enumerate() {
    if i != r && o.script_pubkey != c.change[0].script_pubkey() && o.script_pubkey != c.change[1].script_pubkey() {
      bad.push(("output-neither-recipient-nor-change", format!("output {i} pays {}", hex::encode(o.script_pubkey.as_bytes()))));
    }
    if o.value < o.script_pubkey.minimal_non_dust() {
      bad.push(("dust-output", format!("output {i} has {} sat, dust limit {}", o.value.to_sat(), o.script_pubkey.minimal_non_dust().to_sat())));
    }
  }
  // fee = rate x estimated signed size
  let vsize = reference_vsize(tx.input.len(), &tx.output);
  let want_fee = reference_fee(c.rate, vsize);
  if total_in < total_out {
    bad.push(("outputs-exceed-inputs", format!("{total_in} < {total_out}")));
  } else if total_in - total_out != u128::from(want_fee) {
    bad.push(("fee-differs", format!("fee {} but rate {:e} x {vsize} vB = {want_fee}", total_in - total_out, c.rate)));
  }
  // the amount
  let slop = reference_fee(c.rate, 43);
  match c.target {
    ("value", v) => {
      if r_value < v {
        bad.push(("recipient-below-requested-value", format!("{r_value} < {v}")));
      }
    }
    ("postage", _) => {
      if u128::from(r_value) > 20_000 + u128::from(slop) {
        bad.push(("postage-above-cap", format!("{r_value} > 20000 + {slop}")));
      }
    }
    (_, p) => {
      if u128::from(r_value) > u128::from(p) + u128::from(slop) {
        bad.push(("postage-above-cap", format!("{r_value} > {p} + {slop}")));
      }
    }
  }
  bad
}

pub fn run(ctx: &Ctx, rep: &mut Report) {
  for case in ctx.cases(u64::MAX) {
    let mut rng = ctx.rng(case);
    let replay = ctx.replay_info(case);
    for sub in 0..64u32 {
      let Some(c) = gen_case(&mut rng) else { continue };
      rep.eval();
      let Ok(fee_rate) = FeeRate::try_from(c.rate) else { continue };
      let target = match c.target {
        ("postage", _) => Target::Postage,
        ("value", v) => Target::Value(Amount::from_sat(v)),
        (_, v) => Target::ExactPostage(Amount::from_sat(v)),
      };
      let result = catch(|| {
        TransactionBuilder::new(c.outgoing, c.inscriptions.clone(), c.amounts.clone(), c.locked.clone(), c.runic.clone(), c.recipient.clone(), c.change.clone(), fee_rate, target, c.network).build_transaction()
      });
      let replay = json!({"replay": replay, "sub": sub, "case": describe(&c)});
      match result {
        Err(p) => {
          let msg = p.split(" @ ").next().unwrap_or("");
          let msg = msg.lines().next().unwrap_or("");
          let msg = msg.rsplit("invariant: ").next().unwrap_or(msg);
          let msg = msg.split(": ").next().unwrap_or(msg);
          let msg: String = msg.chars().map(|ch| if ch.is_ascii_digit() { '#' } else { ch }).take(80).collect();
          // the strip rule differs by target (Postage has a 10,000-20,000 sat
          // margin, ExactPostage none), so that site is named per target
          let ctx = if msg.contains("excess postage is stripped") { format!("/{}", c.target.0) } else { String::new() };
          let _ = panic_signature;
          let site = crate::report::enclosing_fn(p.rsplit(" @ ").next().unwrap_or(""));
          rep.violation(&format!("C20/panic/{site}: {msg}{ctx}"), format!("{p}\n{}", describe(&c)), replay);
        }
        Ok(Err(e)) => {
          let kind = format!("{e:?}");
          let kind = kind.split(['(', ' ', '{']).next().unwrap_or("").to_string();
          rep.count(&format!("error_{kind}"));
          rep.distinct(&("err", kind, c.target.0, c.amounts.len()));
        }
        Ok(Ok(tx)) => {
          let bad = judge(&c, &tx);
          let shape = (tx.input.len(), tx.output.len(), c.target.0, c.recipient.is_op_return(), c.inscriptions.len().min(3), (c.rate.max(1e-9).log10() as i32).clamp(-9, 20));
          rep.distinct(&shape);
          rep.count("built_ok");
          rep.count(&format!("built_{}", c.target.0));
          if tx.output.len() >= 3 {
            rep.count("built_with_alignment_and_change");
          }
          if tx.input.len() >= 3 {
            rep.count("built_with_three_or_more_inputs");
          }
          if c.inscriptions.keys().any(|s| s.outpoint == c.outgoing.outpoint && *s != c.outgoing) {
            rep.count("built_with_other_inscription_in_outgoing_output");
          }
          if !c.runic.is_empty() || !c.locked.is_empty() {
            rep.count("built_with_runic_or_locked_outputs_in_wallet");
          }
          for (clause, detail) in &bad {
            rep.violation(&format!("C20/{clause}"), format!("{detail}\ntransaction: inputs {:?} outputs {:?}\n{}", tx.input.iter().map(|i| i.previous_output.to_string()).collect::<Vec<_>>(), tx.output.iter().map(|o| (o.value.to_sat(), hex::encode(o.script_pubkey.as_bytes()))).collect::<Vec<_>>(), describe(&c)), replay.clone());
          }
          if bad.is_empty() && rep.want_sample() {
            rep.sample(json!({"case": describe(&c), "inputs": tx.input.len(), "outputs": tx.output.iter().map(|o| o.value.to_sat()).collect::<Vec<_>>()}));
          }
        }
      }
    }
  }
}
