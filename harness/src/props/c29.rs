//! C29 — sat numbering vs block heights and derived attributes, and
//! C30 — printed sat notations parse back. Depends only on `ordinals`.
//!
//! Reference: the subsidy schedule accumulated independently
//! (subsidy(h) = 50e8 >> (h / 210000)), attributes re-derived from
//! (height, offset) by the definitions in the ordinals BIP / docs.

use crate::{ctx::Ctx, report::{Report, catch}};
use ordinals::{Charm, Height, Rarity, Sat};
use serde_json::json;

pub const HALVING: u32 = 210_000;
pub const DIFFCHANGE: u32 = 2016;
pub const CYCLE: u32 = 6 * HALVING;
pub const LAST_SUBSIDY_HEIGHT: u32 = 33 * HALVING; // 6 930 000 heights carry subsidy
pub const SUPPLY: u64 = 2_099_999_997_690_000;

pub fn ref_subsidy(h: u32) -> u64 {
  let e = h / HALVING;
  if e >= 64 { 0 } else { (50 * 100_000_000u64) >> e }
}

#[derive(Debug, PartialEq, Clone, Copy)]
pub enum RefRarity {
  Common,
  Uncommon,
  Rare,
  Epic,
  Legendary,
  Mythic,
}

pub fn ref_rarity(h: u32, offset: u64) -> RefRarity {
  if offset != 0 {
    RefRarity::Common
  } else if h == 0 {
    RefRarity::Mythic
  } else if h % CYCLE == 0 {
    RefRarity::Legendary
  } else if h % HALVING == 0 {
    RefRarity::Epic
  } else if h % DIFFCHANGE == 0 {
    RefRarity::Rare
  } else {
    RefRarity::Uncommon
  }
}

fn same_rarity(a: RefRarity, b: Rarity) -> bool {
  matches!(
    (a, b),
    (RefRarity::Common, Rarity::Common)
      | (RefRarity::Uncommon, Rarity::Uncommon)
      | (RefRarity::Rare, Rarity::Rare)
      | (RefRarity::Epic, Rarity::Epic)
      | (RefRarity::Legendary, Rarity::Legendary)
      | (RefRarity::Mythic, Rarity::Mythic)
  )
}

fn ref_charms(s: u64, h: u32, offset: u64) -> u16 {
  let mut c = 0u16;
  if s % 100_000_000 == 0 {
    c |= 1 << (Charm::Coin as u16);
  }
  // block 9's sats
  if s >= 9 * 5_000_000_000 && s < 10 * 5_000_000_000 {
    c |= 1 << (Charm::Nineball as u16);
  }
  let text = s.to_string();
  if text.bytes().eq(text.bytes().rev()) {
    c |= 1 << (Charm::Palindrome as u16);
  }
  match ref_rarity(h, offset) {
    RefRarity::Common => {}
    RefRarity::Uncommon => c |= 1 << (Charm::Uncommon as u16),
    RefRarity::Rare => c |= 1 << (Charm::Rare as u16),
    RefRarity::Epic => c |= 1 << (Charm::Epic as u16),
    RefRarity::Legendary => c |= 1 << (Charm::Legendary as u16),
    RefRarity::Mythic => c |= 1 << (Charm::Mythic as u16),
  }
  c
}

/// All derived attributes of sat `s` = (height h, offset) — C29.
fn check_sat_attrs(s: u64, h: u32, offset: u64, rep: &mut Report, replay: &serde_json::Value) {
  rep.eval();
  let r = catch(|| {
    let sat = Sat(s);
    let d = sat.degree();
    (
      sat.height().0,
      sat.third(),
      sat.epoch().0,
      sat.cycle(),
      sat.period(),
      (d.hour, d.minute, d.second, d.third),
      sat.decimal().to_string(),
      sat.rarity(),
      sat.charms(),
      sat.common(),
      sat.epoch_position(),
    )
  });
  let (height, third, epoch, cycle, period, degree, decimal, rarity, charms, common, epoch_position) = match r {
    Ok(x) => x,
    Err(p) => {
      rep.violation("C29/sat/panic", format!("Sat({s}): {p}"), json!({"replay": replay, "sat": s}));
      return;
    }
  };
  let mut bad = Vec::new();
  if height != h {
    bad.push(format!("height {height} != {h}"));
  }
  if third != offset {
    bad.push(format!("third {third} != {offset}"));
  }
  if epoch != h / HALVING {
    bad.push(format!("epoch {epoch} != {}", h / HALVING));
  }
  if cycle != h / CYCLE {
    bad.push(format!("cycle {cycle} != {}", h / CYCLE));
  }
  if period != h / DIFFCHANGE {
    bad.push(format!("period {period} != {}", h / DIFFCHANGE));
  }
  if degree != (h / CYCLE, h % HALVING, h % DIFFCHANGE, offset) {
    bad.push(format!("degree {degree:?}"));
  }
  if decimal != format!("{h}.{offset}") {
    bad.push(format!("decimal {decimal}"));
  }
  let want_rarity = ref_rarity(h, offset);
  if !same_rarity(want_rarity, rarity) {
    bad.push(format!("rarity {rarity} != {want_rarity:?}"));
  }
  if charms != ref_charms(s, h, offset) {
    bad.push(format!("charms {charms:#b} != {:#b}", ref_charms(s, h, offset)));
  }
  if common != (offset != 0) {
    bad.push(format!("common() {common}"));
  }
  let epoch_start_height = (h / HALVING) * HALVING;
  let want_epoch_position = u64::from(h - epoch_start_height) * ref_subsidy(h) + offset;
  if epoch_position != want_epoch_position {
    bad.push(format!("epoch_position {epoch_position} != {want_epoch_position}"));
  }
  if !bad.is_empty() {
    rep.violation(
      "C29/sat/attribute-mismatch",
      format!("Sat({s}) = height {h} offset {offset}: {}", bad.join("; ")),
      json!({"replay": replay, "sat": s}),
    );
  }
}

/// Reference rendering of the base-26 sat name.
fn ref_sat_name(s: u64) -> String {
  let mut x = u128::from(SUPPLY - s);
  let mut out = Vec::new();
  while x > 0 {
    out.push(b'a' + ((x - 1) % 26) as u8);
    x = (x - 1) / 26;
  }
  out.reverse();
  String::from_utf8(out).unwrap()
}

/// C30: every printed notation parses back to the same sat.
fn check_notations(s: u64, h: u32, offset: u64, rep: &mut Report, replay: &serde_json::Value) {
  let sat = Sat(s);
  let notations: [(&str, Box<dyn Fn() -> String>); 5] = [
    ("integer", Box::new(move || sat.to_string())),
    ("decimal", Box::new(move || sat.decimal().to_string())),
    ("degree", Box::new(move || sat.degree().to_string())),
    ("percentile", Box::new(move || sat.percentile())),
    ("name", Box::new(move || sat.name())),
  ];
  for (kind, print) in notations {
    rep.eval();
    match catch(|| {
      let text = print();
      let parsed = text.parse::<Sat>();
      (text, parsed)
    }) {
      Err(p) => rep.violation(&format!("C30/{kind}/panic"), format!("Sat({s}): {p}"), json!({"replay": replay, "sat": s})),
      Ok((text, parsed)) => {
        match parsed {
          Ok(back) if back == sat => {}
          other => rep.violation(
            &format!("C30/{kind}/print-parse"),
            format!("Sat({s}) prints {kind} {text:?} which parses to {other:?}"),
            json!({"replay": replay, "sat": s}),
          ),
        }
        // the printed form itself must be the documented one
        let want = match kind {
          "integer" => Some(s.to_string()),
          "decimal" => Some(format!("{h}.{offset}")),
          "degree" => Some(format!("{}°{}′{}″{}‴", h / CYCLE, h % HALVING, h % DIFFCHANGE, offset)),
          "name" => Some(ref_sat_name(s)),
          _ => None,
        };
        if let Some(want) = want
          && want != text
        {
          rep.violation(
            &format!("C30/{kind}/printed-form"),
            format!("Sat({s}) prints {kind} {text:?}, documented form {want:?}"),
            json!({"replay": replay, "sat": s}),
          );
        }
      }
    }
  }
}

/// Locate a sat from the independently accumulated epoch table.
pub fn ref_locate(s: u64) -> (u32, u64) {
  let mut start = 0u64;
  for e in 0..33u32 {
    let sub = ref_subsidy(e * HALVING);
    let size = sub * u64::from(HALVING);
    if s < start + size {
      let rel = s - start;
      return (e * HALVING + (rel / sub) as u32, rel % sub);
    }
    start += size;
  }
  panic!("sat {s} above supply");
}

pub fn run(ctx: &Ctx, rep: &mut Report, which: &str) {
  let c29 = which == "C29";
  let miri = cfg!(miri);
  let replay_det = ctx.replay_info(u64::MAX);
  // --- per-height sweep, heights ≡ shard (mod nshards) --------------------
  let mut acc = 0u64; // starting sat of height h, accumulated independently
  let mut counts = [0u64; 6]; // rarity counts over first sats
  let stride = ctx.nshards.max(1) as u32;
  let limit = if miri { 4000 } else { LAST_SUBSIDY_HEIGHT };
  // leave the last 35% of the budget to the random part
  let mut swept = 0u64;
  let mut complete = true;
  if ctx.only_case.is_none_or(|c| c == u64::MAX) {
    for h in 0..limit {
      let sub = ref_subsidy(h);
      // rarity census needs every height; it is cheap
      if c29 && ctx.shard == 0 {
        counts[ref_rarity(h, 0) as usize] += 1;
      }
      if h % stride == ctx.shard as u32 {
        if h % 4096 == 0 && ctx.fraction_elapsed() > 0.65 {
          complete = false;
          break;
        }
        swept += 1;
        if c29 {
          rep.eval();
          match catch(|| (Height(h).starting_sat().0, Height(h).subsidy())) {
            Ok((st, su)) => {
              if st != acc || su != sub {
                rep.violation(
                  "C29/height/starting-sat-or-subsidy",
                  format!("Height({h}): starting_sat {st} (reference {acc}), subsidy {su} (reference {sub})"),
                  json!({"replay": replay_det, "height": h}),
                );
              }
            }
            Err(p) => rep.violation("C29/height/panic", format!("Height({h}): {p}"), json!({"replay": replay_det, "height": h})),
          }
          check_sat_attrs(acc, h, 0, rep, &replay_det);
          check_sat_attrs(acc + sub - 1, h, sub - 1, rep, &replay_det);
          if sub > 2 && (ctx.thorough() || h % 7 == 0) {
            check_sat_attrs(acc + 1, h, 1, rep, &replay_det);
          }
        } else {
          check_notations(acc, h, 0, rep, &replay_det);
          check_notations(acc + sub - 1, h, sub - 1, rep, &replay_det);
          if sub > 2 && ctx.thorough() {
            check_notations(acc + 1, h, 1, rep, &replay_det);
          }
        }
        if h % HALVING < 2 || h % HALVING == HALVING - 1 || h % DIFFCHANGE == 0 {
          rep.distinct(&("boundary", h));
        }
      }
      acc += sub;
    }
    rep.add("heights_checked", swept);
    if complete && !miri {
      rep.count("height_sweeps_completed");
      if acc != SUPPLY {
        rep.violation("C29/reference/supply", format!("accumulated supply {acc} != {SUPPLY}"), json!({"replay": replay_det}));
      }
    }
  }

  // --- shard 0: things that are not per-height ---------------------------
  if ctx.deterministic_part() && c29 && !miri {
    // heights at and beyond the end of the subsidy
    for h in (LAST_SUBSIDY_HEIGHT..LAST_SUBSIDY_HEIGHT + 1000).chain([7_000_000, 10_000_000, 13_440_000, u32::MAX / 2, u32::MAX - 1, u32::MAX]) {
      rep.eval();
      match catch(|| (Height(h).starting_sat().0, Height(h).subsidy())) {
        Ok((st, su)) if st == SUPPLY && su == 0 => rep.count("post_subsidy_ok"),
        Ok((st, su)) => rep.violation("C29/height/post-subsidy", format!("Height({h}): starting_sat {st}, subsidy {su}"), json!({"replay": replay_det, "height": h})),
        Err(p) => rep.violation("C29/height/panic", format!("Height({h}): {p}"), json!({"replay": replay_det, "height": h})),
      }
    }
    // rarity supply table equals the census (only if the census saw all heights)
    if complete {
      let uncommon_etc: u64 = counts[1..].iter().sum();
      let census = [SUPPLY - uncommon_etc, counts[1], counts[2], counts[3], counts[4], counts[5]];
      for (i, r) in [Rarity::Common, Rarity::Uncommon, Rarity::Rare, Rarity::Epic, Rarity::Legendary, Rarity::Mythic].iter().enumerate() {
        rep.eval();
        if r.supply() != census[i] {
          rep.violation("C29/rarity/supply-table", format!("{r}: supply() {} but census {}", r.supply(), census[i]), json!({"replay": replay_det}));
        } else {
          rep.count("rarity_supply_ok");
        }
      }
    }
    // Sat::LAST / SUPPLY constants
    if Sat::SUPPLY != SUPPLY || Sat::LAST.0 != SUPPLY - 1 {
      rep.violation("C29/constants", format!("Sat::SUPPLY {}", Sat::SUPPLY), json!({"replay": replay_det}));
    }
  }

  // --- random interior sats ----------------------------------------------
  let max = if miri { 100 } else { u64::MAX };
  for case in ctx.cases(max) {
    if case == u64::MAX {
      break;
    }
    let mut rng = ctx.rng(case);
    let replay = ctx.replay_info(case);
    for _ in 0..(if miri { 1 } else { 128 }) {
      let s = match rng.below(5) {
        0 => rng.below(SUPPLY),
        1 => {
          // near an epoch boundary
          let e = rng.below(33) as u32;
          let mut start = 0u64;
          for i in 0..e {
            start += ref_subsidy(i * HALVING) * u64::from(HALVING);
          }
          (start + rng.below(5)).saturating_sub(2).min(SUPPLY - 1)
        }
        2 => rng.log_u64() % SUPPLY,
        3 => SUPPLY - 1 - rng.below(1_000_000),
        _ => {
          // near a block boundary of a random height
          let h = rng.below(u64::from(LAST_SUBSIDY_HEIGHT)) as u32;
          let mut start = 0u64;
          let mut e = 0;
          while (e + 1) * HALVING <= h {
            start += ref_subsidy(e * HALVING) * u64::from(HALVING);
            e += 1;
          }
          start += u64::from(h - e * HALVING) * ref_subsidy(h);
          (start + rng.below(5)).saturating_sub(2).min(SUPPLY - 1)
        }
      };
      let (h, offset) = ref_locate(s);
      rep.distinct(&("random", h / HALVING, offset == 0, s % 1000 == 0));
      if c29 {
        check_sat_attrs(s, h, offset, rep, &replay);
      } else {
        check_notations(s, h, offset, rep, &replay);
      }
      if rep.want_sample() {
        let sat = Sat(s);
        rep.sample(json!({"sat": s, "height": h, "offset": offset, "degree": sat.degree().to_string(), "decimal": sat.decimal().to_string(), "percentile": sat.percentile(), "name": sat.name(), "rarity": sat.rarity().to_string()}));
      }
    }
  }
}
