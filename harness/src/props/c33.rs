//! C33 — rune-name unlock schedule: monotone, complete, and
//! `unlock_height` = first height whose minimum admits the name.

use crate::{ctx::Ctx, props::c32::ref_value, report::{Report, catch}};
use bitcoin::Network;
use ordinals::{Height, Rune};
use serde_json::json;

const INTERVAL: u32 = 210_000;

fn networks() -> Vec<Network> {
  vec![Network::Bitcoin, Network::Testnet, Network::Testnet4, Network::Signet, Network::Regtest]
}

/// Tabulate minimum_at_height over [lo, hi].
fn tabulate(net: Network, lo: u32, hi: u32) -> Result<Vec<u128>, String> {
  catch(|| (lo..=hi).map(|h| Rune::minimum_at_height(net, Height(h)).0).collect())
}

pub fn run(ctx: &Ctx, rep: &mut Report) {
  let miri = cfg!(miri);
  let nets = networks();
  // each shard takes the networks congruent to its index
  for (ni, net) in nets.iter().enumerate() {
    if (ni as u64) % ctx.nshards != ctx.shard % ctx.nshards {
      continue;
    }
    let replay = json!({"replay": ctx.replay_info(u64::MAX), "network": net.to_string()});
    let start = Rune::first_rune_height(*net);
    let lo = start.saturating_sub(if miri { 3 } else { 50 });
    let hi = if miri { start + 40 } else { start + INTERVAL + 50 };
    let table = match tabulate(*net, lo, hi) {
      Ok(t) => t,
      Err(p) => {
        rep.violation("C33/minimum/panic", format!("{net}: {p}"), replay.clone());
        continue;
      }
    };
    rep.evals(table.len() as u64);
    rep.add("heights_tabulated", table.len() as u64);
    let at = |h: u32| table[(h - lo) as usize];

    // 1. monotone non-increasing
    let mut strict_drops = 0u64;
    for h in lo..hi {
      if at(h + 1) > at(h) {
        rep.violation(
          "C33/minimum/increases",
          format!("{net}: minimum at {} is {} but at {} it is {}", h, at(h), h + 1, at(h + 1)),
          replay.clone(),
        );
      }
      if at(h + 1) < at(h) {
        strict_drops += 1;
      }
    }
    rep.add("strict_drops", strict_drops);
    rep.distinct(&("monotone", net.to_string(), strict_drops));

    // 2. thirteen-letter names etchable from the first rune block
    let thirteen = ref_value("AAAAAAAAAAAAA").unwrap();
    if at(start) > thirteen {
      rep.violation("C33/minimum/thirteen-letters-locked-at-start", format!("{net}: minimum at first rune block {start} is {}", at(start)), replay.clone());
    }
    rep.count("thirteen_checked");

    // 3. complete: zero once the schedule is over (and well beyond)
    if !miri {
      for h in (start + INTERVAL)..=hi {
        if at(h) != 0 {
          rep.violation("C33/minimum/nonzero-after-schedule", format!("{net}: minimum at {h} is {}", at(h)), replay.clone());
        }
      }
      for h in [start + 2 * INTERVAL, 6_930_000, u32::MAX - 1, u32::MAX] {
        rep.eval();
        match catch(|| Rune::minimum_at_height(*net, Height(h)).0) {
          Ok(0) => {}
          Ok(m) => rep.violation("C33/minimum/nonzero-after-schedule", format!("{net}: minimum at {h} is {m}"), replay.clone()),
          Err(p) => rep.violation("C33/minimum/panic", format!("{net} height {h}: {p}"), replay.clone()),
        }
      }
      // before the window (sampled; for mainnet 840 000 heights)
      let mut h = 0u32;
      while h < lo {
        rep.eval();
        match catch(|| Rune::minimum_at_height(*net, Height(h)).0) {
          Ok(m) if m >= at(lo) => {}
          Ok(m) => rep.violation("C33/minimum/increases", format!("{net}: minimum at {h} is {m}, below later minimum {}", at(lo)), replay.clone()),
          Err(p) => rep.violation("C33/minimum/panic", format!("{net} height {h}: {p}"), replay.clone()),
        }
        h += 997;
      }
    }

    // 4. unlock_height(r) = min{h : minimum(h) <= r}
    // first height admitting r, from the table (heights below `lo` all carry
    // the pre-window minimum, checked above)
    let first_admitting = |r: u128| -> Option<u32> {
      let pre = Rune::minimum_at_height(*net, Height(0)).0;
      if pre <= r {
        return Some(0);
      }
      // binary search in [lo, hi] on the non-increasing table
      let (mut a, mut b) = (lo, hi);
      if at(b) > r {
        return None;
      }
      while a < b {
        let mid = a + (b - a) / 2;
        if at(mid) <= r {
          b = mid;
        } else {
          a = mid + 1;
        }
      }
      Some(a)
    };
    let mut check_name = |r: u128, rep: &mut Report| {
      rep.eval();
      let got = match catch(|| Rune(r).unlock_height(*net)) {
        Ok(g) => g.map(|h| h.0),
        Err(p) => {
          rep.violation("C33/unlock/panic", format!("{net} rune {r}: {p}"), replay.clone());
          return;
        }
      };
      rep.distinct(&(ni, got));
      if Rune(r).is_reserved() {
        if got.is_some() {
          rep.violation("C33/unlock/reserved-has-height", format!("{net} rune {r}: {got:?}"), replay.clone());
        }
        return;
      }
      let want = first_admitting(r);
      if got != want {
        rep.violation(
          "C33/unlock/not-first-admitting-height",
          format!("{net} rune {r} ({}): unlock_height {got:?}, first height with minimum <= name is {want:?}", Rune(r)),
          replay.clone(),
        );
      } else {
        rep.count("unlock_ok");
      }
    };
    if !miri {
      // every tabulated minimum and its neighbours
      let mut prev = u128::MAX;
      for h in lo..=hi {
        let m = at(h);
        if m == prev {
          continue;
        }
        prev = m;
        for r in [m.wrapping_sub(1), m, m + 1] {
          if r != u128::MAX {
            check_name(r, rep);
          }
        }
      }
    }
    for len in 1..=14usize {
      for name in ["A".repeat(len), "Z".repeat(len)] {
        let v = ref_value(&name).unwrap();
        for r in [v.wrapping_sub(1), v, v + 1] {
          if r != u128::MAX {
            check_name(r, rep);
          }
        }
      }
    }
    check_name(Rune::RESERVED - 1, rep);
    check_name(Rune::RESERVED, rep);
    // random non-reserved names, biased to the locked range
    let mut case = 0u64;
    let max_random = if miri { 50 } else { u64::MAX };
    while ctx.time_left() && case < max_random {
      let mut rng = ctx.rng(case ^ ((ni as u64) << 56));
      for _ in 0..200 {
        let r = if rng.chance(3, 4) { rng.below_u128(thirteen + 1000) } else { rng.below_u128(Rune::RESERVED) };
        check_name(r, rep);
        if rep.want_sample() {
          rep.sample(json!({"network": net.to_string(), "rune": Rune(r).to_string(), "unlock_height": Rune(r).unlock_height(*net).map(|h| h.0), "minimum_there": Rune(r).unlock_height(*net).map(|h| Rune::minimum_at_height(*net, h).to_string())}));
        }
      }
      rep.distinct(&("random", net.to_string(), case % 64));
      case += 1;
      if ctx.only_case.is_some() {
        break;
      }
    }
    rep.seen("networks", net.to_string());
  }
}
