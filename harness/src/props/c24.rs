//! C24 — accepting an offer only signs the advertised trade.
//!
//! The real `ord wallet offer accept` is given generated PSBTs (any number of
//! wallet and foreign inputs, signed / unsigned / doubly signed, wallet inputs
//! holding the right inscription, another one, two, runes or nothing, payments
//! that make the balance change equal, smaller or larger than the stated
//! amount). Every clause of the statement is evaluated independently from the
//! PSBT, the chain and the index; the recorded RPC history must show a
//! `walletprocesspsbt` with sign=true or a `sendrawtransaction` only when all
//! clauses hold, and a broadcast only when the buyer signatures survived.

use crate::{
  ctx::Ctx,
  idx::IndexCfg,
  report::Report,
  rng::Rng,
  walletlab::{Lab, bank_script, foreign_script},
};
use bitcoin::{Address, Amount, Network, OutPoint, Psbt, ScriptBuf, Sequence, Transaction, TxIn, TxOut, Witness, absolute::LockTime, transaction::Version};
use ord::InscriptionId;
use serde_json::json;
use std::collections::BTreeMap;

#[derive(Clone, Debug)]
struct Owned {
  outpoint: OutPoint,
  value: u64,
  inscriptions: Vec<InscriptionId>,
  runic: bool,
  kind: &'static str,
}

#[derive(Clone, Copy, Debug, PartialEq)]
enum Sig {
  None,
  MockWitness,  // what the mock's finalizepsbt will put there: survives signing
  OtherWitness, // any other signature: the mock "changes" it
  ScriptSig,
  Both,
}

fn inscribe_many(lab: &mut Lab, bank: OutPoint, script: ScriptBuf, value: u64, n: usize) -> (OutPoint, Vec<InscriptionId>) {
  let inscriptions: Vec<ord::Inscription> = (0..n).map(|i| ord::Inscription { content_type: Some(b"text/plain".to_vec()), body: Some(format!("item {i}").into_bytes()), ..Default::default() }).collect();
  let builder = bitcoin::script::Builder::new().push_slice([7u8; 32]).push_opcode(bitcoin::opcodes::all::OP_CHECKSIG);
  let reveal = ord::Inscription::append_batch_reveal_script_to_builder(&inscriptions, builder).into_script();
  let mut w = Witness::new();
  w.push(reveal.as_bytes());
  w.push([0xc0u8; 33]);
  let tx = lab.spend(&[(bank, w)], vec![TxOut { value: Amount::from_sat(value), script_pubkey: script }]);
  let txid = tx.compute_txid();
  lab.mine(vec![tx]);
  (OutPoint { txid, vout: 0 }, (0..n).map(|i| InscriptionId { txid, index: i as u32 }).collect())
}

pub fn run(ctx: &Ctx, rep: &mut Report) {
  for case in ctx.cases(u64::MAX) {
    let mut rng = ctx.rng(case);
    let replay = json!({"replay": ctx.replay_info(case)});
    let mut cfg = IndexCfg::from_bits(0);
    cfg.inscriptions = true;
    cfg.runes = true;
    let mut lab = match Lab::on(Network::Bitcoin, &ctx.scratch, case, &cfg) {
      Ok(l) => l,
      Err(e) => {
        rep.inconclusive(format!("lab: {e}"));
        continue;
      }
    };
    let r = lab.wallet(&["create"]);
    if !r.ok() {
      rep.inconclusive(format!("wallet create failed: {}", r.stderr));
      lab.stop();
      continue;
    }
    // the seller's wallet and the buyer's coins
    let mut banks = lab.mine_empty(24).into_iter();
    let mut owned: Vec<Owned> = Vec::new();
    for _ in 0..2 {
      let v = rng.range(5_000, 40_000);
      let script = lab.wallet_script();
      let (o, ids) = inscribe_many(&mut lab, banks.next().unwrap(), script, v, 1);
      owned.push(Owned { outpoint: o, value: v, inscriptions: ids, runic: false, kind: "one-inscription" });
    }
    {
      let v = rng.range(5_000, 40_000);
      let script = lab.wallet_script();
      let (o, ids) = inscribe_many(&mut lab, banks.next().unwrap(), script, v, 2);
      owned.push(Owned { outpoint: o, value: v, inscriptions: ids, runic: false, kind: "two-inscriptions" });
    }
    {
      let v = rng.range(5_000, 40_000);
      let script = lab.wallet_script();
      let (_, outs) = lab.etch(banks.next().unwrap(), &[(script, v, 1000)], 0, None);
      owned.push(Owned { outpoint: outs[0], value: v, inscriptions: vec![], runic: true, kind: "runic" });
    }
    {
      // an inscribed output that also holds runes: reveal out of a runic bank output
      let v = rng.range(5_000, 40_000);
      let (_, outs) = lab.etch(banks.next().unwrap(), &[(bank_script(), 50_000, 77)], 0, None);
      let script = lab.wallet_script();
      let (o, ids) = inscribe_many(&mut lab, outs[0], script, v, 1);
      owned.push(Owned { outpoint: o, value: v, inscriptions: ids, runic: true, kind: "inscription-and-runes" });
    }
    let values: Vec<u64> = (0..2).map(|_| rng.range(5_000, 40_000)).collect();
    for (o, v) in lab.pay_wallet(banks.next().unwrap(), &values).into_iter().zip(values.iter()) {
      owned.push(Owned { outpoint: o, value: *v, inscriptions: vec![], runic: false, kind: "cardinal" });
    }
    let buyer_coins: Vec<OutPoint> = banks.collect();
    lab.mine_empty(1);
    if let Err(e) = lab.sync() {
      rep.inconclusive(format!("sync: {e}"));
      lab.stop();
      continue;
    }
    // ground truth from the index
    let balances: BTreeMap<OutPoint, usize> = lab.explorer.index.get_rune_balances().unwrap_or_default().into_iter().map(|(o, b)| (o, b.len())).collect();
    for o in &owned {
      let ids = lab.explorer.index.get_inscriptions_for_output(o.outpoint).ok().flatten().unwrap_or_default();
      let mut a = ids.clone();
      a.sort();
      let mut b = o.inscriptions.clone();
      b.sort();
      if a != b || (balances.get(&o.outpoint).copied().unwrap_or(0) > 0) != o.runic {
        rep.inconclusive(format!("wallet state differs from the plan for {}: index lists {ids:?} / runes {:?}", o.kind, balances.get(&o.outpoint)));
      }
    }
    rep.count("wallets");

    let buyer_script = foreign_script(0x61);
    for _ in 0..12 {
      if !ctx.time_left() && ctx.only_case.is_none() {
        break;
      }
      // which of the wallet's outputs are still unspent (accepted offers spend them)
      let alive: Vec<Owned> = owned.iter().filter(|o| lab.node.utxo_value(&o.outpoint).is_some()).cloned().collect();
      let singles: Vec<&Owned> = alive.iter().filter(|o| o.kind == "one-inscription").collect();
      if singles.is_empty() {
        break;
      }
      let named = rng.pick(&singles).inscriptions[0];
      let mut amount = rng.range(1_000, 50_000);

      // mostly one defect at a time, so that each clause is the only thing
      // between the PSBT and a signature
      let right = alive.iter().find(|o| o.inscriptions == vec![named]).unwrap().clone();
      let mut defects: Vec<u64> = vec![rng.below(14)];
      if rng.chance(1, 4) {
        defects.push(rng.below(14));
      }
      let mut wallet_inputs: Vec<Owned> = vec![right.clone()];
      let mut seller_signed = false;
      let n_foreign = *rng.pick(&[1usize, 1, 1, 2, 3]);
      let mut coins: Vec<OutPoint> = buyer_coins.iter().filter(|o| lab.node.utxo_value(o).is_some()).copied().collect();
      if coins.len() < 3 {
        break;
      }
      rng.shuffle(&mut coins);
      let mut foreign: Vec<(OutPoint, Sig)> = coins.into_iter().take(n_foreign).map(|o| (o, Sig::MockWitness)).collect();
      let mut delta: i64 = 0;
      let mut extra_signed: Option<OutPoint> = None;
      for d in defects {
        match d {
          0 => wallet_inputs.clear(),
          1 => {
            // a wallet output that is not the named single inscription
            let wrong: Vec<&Owned> = alive.iter().filter(|o| o.outpoint != right.outpoint).collect();
            wallet_inputs = vec![(*rng.pick(&wrong)).clone()];
          }
          2 => {
            // the right one plus another wallet output
            let others: Vec<&Owned> = alive.iter().filter(|o| o.outpoint != right.outpoint).collect();
            wallet_inputs.push((*rng.pick(&others)).clone());
          }
          3 => delta = *rng.pick(&[-1i64, 1]),
          4 => delta = rng.range(2, 900) as i64 * if rng.chance(1, 2) { 1 } else { -1 },
          5 => seller_signed = true,
          6 if !foreign.is_empty() => foreign[0].1 = Sig::None,
          7 if !foreign.is_empty() => foreign[0].1 = Sig::Both,
          8 if !foreign.is_empty() => foreign[0].1 = Sig::OtherWitness,
          9 if !foreign.is_empty() => foreign[0].1 = Sig::ScriptSig,
          10 => foreign.clear(),
          12 => {
            // the wallet *loses* exactly the stated amount (or gains nothing)
            amount = rng.range(600, right.value.saturating_sub(700).max(601));
            delta = if rng.chance(2, 3) { -2 * amount as i64 } else { -(amount as i64) };
          }
          11 => {
            // a second wallet output that arrives signed, like a buyer input
            let others: Vec<&Owned> = alive.iter().filter(|o| o.outpoint != right.outpoint).collect();
            let other = (*rng.pick(&others)).clone();
            extra_signed = Some(other.outpoint);
            wallet_inputs.push(other);
          }
          _ => {}
        }
      }
      wallet_inputs.dedup_by_key(|o| o.outpoint);
      // assemble inputs in random order
      let mut inputs: Vec<(OutPoint, Option<Sig>)> = wallet_inputs.iter().map(|o| (o.outpoint, None)).chain(foreign.iter().map(|(o, s)| (*o, Some(*s)))).collect();
      rng.shuffle(&mut inputs);
      if inputs.is_empty() {
        continue;
      }
      // outputs: the inscription to the buyer, a payment to the seller, change to the buyer
      let wallet_in: u64 = wallet_inputs.iter().map(|o| o.value).sum();
      let pay = (wallet_in as i64 + amount as i64 + delta).max(600) as u64;
      let mut outputs = vec![TxOut { value: Amount::from_sat(wallet_inputs.first().map(|o| o.value).unwrap_or(10_000)), script_pubkey: buyer_script.clone() }];
      if rng.chance(1, 6) {
        // payment split over two wallet addresses
        outputs.push(TxOut { value: Amount::from_sat(pay / 2), script_pubkey: lab.wallet_script() });
        outputs.push(TxOut { value: Amount::from_sat(pay - pay / 2), script_pubkey: lab.wallet_script() });
      } else {
        outputs.push(TxOut { value: Amount::from_sat(pay), script_pubkey: lab.wallet_script() });
      }
      outputs.push(TxOut { value: Amount::from_sat(1_000), script_pubkey: buyer_script.clone() });
      let tx = Transaction {
        version: Version(2),
        lock_time: LockTime::ZERO,
        input: inputs.iter().map(|(o, _)| TxIn { previous_output: *o, script_sig: ScriptBuf::new(), sequence: Sequence::ENABLE_RBF_NO_LOCKTIME, witness: Witness::new() }).collect(),
        output: outputs.clone(),
      };
      let mut psbt = Psbt::from_unsigned_tx(tx).unwrap();
      for (i, (_, sig)) in inputs.iter().enumerate() {
        let sig = match sig {
          None if seller_signed || extra_signed == Some(inputs[i].0) => Sig::MockWitness,
          None => Sig::None,
          Some(s) => *s,
        };
        match sig {
          Sig::None => {}
          Sig::MockWitness => psbt.inputs[i].final_script_witness = Some(Witness::from_slice(&[&[0u8; 64]])),
          Sig::OtherWitness => psbt.inputs[i].final_script_witness = Some(Witness::from_slice(&[&[9u8; 64]])),
          Sig::ScriptSig => psbt.inputs[i].final_script_sig = Some(ScriptBuf::from_bytes(vec![0x01, 0x51])),
          Sig::Both => {
            psbt.inputs[i].final_script_witness = Some(Witness::from_slice(&[&[0u8; 64]]));
            psbt.inputs[i].final_script_sig = Some(ScriptBuf::from_bytes(vec![0x01, 0x51]));
          }
        }
      }
      let encoded = ord::base64_encode(&psbt.serialize());

      // the clauses, evaluated here
      let balance_change: i64 = outputs.iter().filter(|o| lab.is_wallet_script(&o.script_pubkey)).map(|o| o.value.to_sat() as i64).sum::<i64>() - wallet_in as i64;
      let mut failing: Vec<&'static str> = Vec::new();
      if wallet_inputs.len() != 1 {
        failing.push("not-exactly-one-wallet-input");
      } else {
        let o = &wallet_inputs[0];
        if o.inscriptions != vec![named] {
          failing.push("wallet-input-does-not-hold-exactly-the-named-inscription");
        }
        if o.runic {
          failing.push("wallet-input-holds-runes");
        }
      }
      if balance_change != amount as i64 {
        failing.push("balance-change-differs-from-amount");
      }
      if (seller_signed || extra_signed.is_some_and(|e| wallet_inputs.iter().any(|o| o.outpoint == e))) && !wallet_inputs.is_empty() {
        failing.push("wallet-input-already-signed");
      }
      if foreign.iter().any(|(_, s)| matches!(s, Sig::None | Sig::Both)) {
        failing.push("foreign-input-not-properly-signed");
      }
      let signatures_survive = foreign.iter().all(|(_, s)| *s == Sig::MockWitness);

      lab.clear_mempool();
      let mark = lab.proxy.mark();
      let amount_arg = format!("{amount}sat");
      let named_s = named.to_string();
      let r = lab.wallet(&["offer", "accept", "--inscription", &named_s, "--amount", &amount_arg, "--psbt", &encoded]);
      rep.eval();
      let calls = lab.proxy.since(mark);
      if r.panicked() && (r.stderr.contains("mockcore") || calls.iter().any(|c| c.error.is_object() && c.error["message"].as_str().is_some_and(|m| m.contains("panic")))) {
        rep.inconclusive(format!("mock node panicked: {}", r.stderr.chars().take(200).collect::<String>()));
        break;
      }
      let signed = calls.iter().any(|c| c.method == "walletprocesspsbt" && c.params[1].as_bool() == Some(true));
      let broadcast = calls.iter().any(|c| c.method == "sendrawtransaction") || !lab.mempool().is_empty();
      let shape = (wallet_inputs.iter().map(|o| o.kind).collect::<Vec<_>>(), foreign.iter().map(|(_, s)| format!("{s:?}")).collect::<Vec<_>>(), delta.signum(), seller_signed);
      rep.distinct(&shape);
      let describe = format!(
        "wallet inputs {:?}, foreign inputs {:?}, named inscription {named}, amount {amount}, balance change {balance_change}, seller input pre-signed {seller_signed}; exit {:?}; stderr: {}; rpc: {:?}",
        wallet_inputs.iter().map(|o| (o.kind, o.outpoint.to_string())).collect::<Vec<_>>(),
        foreign.iter().map(|(o, s)| (o.to_string(), format!("{s:?}"))).collect::<Vec<_>>(),
        r.status,
        r.stderr.chars().take(200).collect::<String>(),
        calls.iter().map(|c| c.method.as_str()).filter(|m| matches!(*m, "walletprocesspsbt" | "sendrawtransaction" | "finalizepsbt" | "simulaterawtransaction")).collect::<Vec<_>>(),
      );
      if rep.want_sample() {
        rep.sample(json!({"offer": describe, "clauses_that_fail": failing, "signed": signed, "broadcast": broadcast}));
      }
      if failing.is_empty() {
        rep.count("offers_satisfying_every_clause");
        if signed {
          rep.count("valid_offers_signed");
        } else {
          rep.count("valid_offers_refused");
          rep.observe(format!("valid offer refused: {}", r.stderr.chars().take(160).collect::<String>()));
        }
        if broadcast && !signatures_survive {
          rep.violation("C24/broadcast-although-buyer-signature-changed", describe.clone(), replay.clone());
        } else if broadcast {
          rep.count("valid_offers_broadcast");
        } else if !signatures_survive {
          rep.count("changed_buyer_signature_not_broadcast");
        }
      } else {
        for f in &failing {
          rep.count(&format!("offers_violating_{f}"));
        }
        if signed || broadcast {
          rep.violation(&format!("C24/{}-despite/{}", if broadcast { "broadcast" } else { "signed" }, failing[0]), format!("clauses that do not hold: {failing:?}\n{describe}"), replay.clone());
        } else {
          rep.count("invalid_offers_refused");
        }
      }
      // settle
      if broadcast {
        // only what a real node would have accepted is mined (the mock does not
        // check that inputs cover outputs)
        let fine = lab.mempool().iter().all(|tx| {
          let input: u64 = tx.input.iter().filter_map(|i| lab.txout(&i.previous_output)).map(|o| o.value.to_sat()).sum();
          input >= tx.output.iter().map(|o| o.value.to_sat()).sum::<u64>()
        });
        if fine {
          lab.mine_mempool();
        } else {
          lab.clear_mempool();
          rep.count("accepted_offers_not_mined_outputs_exceed_inputs");
        }
        let _ = lab.sync();
      }
    }
    lab.stop();
    let _ = std::fs::remove_dir_all(&lab.dir);
  }
}

#[allow(dead_code)]
fn address(script: &ScriptBuf) -> String {
  Address::from_script(script, Network::Bitcoin).map(|a| a.to_string()).unwrap_or_default()
}
