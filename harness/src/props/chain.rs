//! Chain engine: generated adversarial chains are fed to the real `Index`
//! through the mock node while the reference models fold the same blocks;
//! audits run at quiescent points (after `update()` returned). One engine,
//! many deciders: the property id selects generator classes, index
//! configurations and which audits may raise violations.

use crate::{
  ctx::Ctx,
  blockgen::{Gen, GenCfg},
  idx::IndexCfg,
  model::{Model, sats},
  node::Node,
  report::{Report, catch, panic_signature},
  rng::Rng,
};
use bitcoin::{Network, OutPoint};
use ord::Index;
use ordinals::Sat;
use serde_json::json;
use std::collections::{BTreeMap, BTreeSet};

pub struct Scenario {
  pub prop: &'static str,
  pub gencfg: GenCfg,
  pub index: IndexCfg,
  pub network: Network,
  pub blocks: u32,
  /// update + audit every `audit_every` blocks
  pub audit_every: u32,
}

pub struct Run<'a> {
  pub sc: &'a Scenario,
  pub node: Node,
  pub model: Model,
  pub bgen: Gen,
  pub index: Index,
  pub replay: serde_json::Value,
}

pub use super::chain_driver::run;

fn hexs(b: &[u8]) -> String {
  b.iter().map(|x| format!("{x:02x}")).collect()
}

// ------------------------------------------------------------------ audits

/// C01: sat ranges of every unspent output and of the lost-sats output are
/// exactly those of the BIP algorithm; nothing else is listed.
pub fn audit_c01(run: &Run, rep: &mut Report) {
  let utxos = match run.index.verif_utxos() {
    Ok(u) => u,
    Err(e) => {
      rep.inconclusive(format!("verif_utxos failed: {e}"));
      return;
    }
  };
  let by_outpoint: BTreeMap<OutPoint, &ord::index::verif::VerifUtxo> = utxos.iter().map(|u| (u.outpoint, u)).collect();
  let h = run.model.height();
  let mut checked = 0u64;
  for (op, out) in &run.model.sats.utxos {
    rep.eval();
    checked += 1;
    match by_outpoint.get(op) {
      None => rep.violation("C01/output-missing", format!("height {h}: unspent output {op} (value {}) has no entry in the index", out.value), run.replay.clone()),
      Some(u) => {
        let got = u.sat_ranges.clone().unwrap_or_default();
        if got != out.ranges {
          rep.violation(
            "C01/ranges-differ",
            format!("height {h}: output {op}: index ranges {:?}, BIP reference {:?}", got, out.ranges),
            run.replay.clone(),
          );
        }
      }
    }
  }
  // public API on a sample (all when small)
  let sample: Vec<&OutPoint> = run.model.sats.utxos.keys().step_by((run.model.sats.utxos.len() / 40).max(1)).collect();
  for op in sample {
    rep.eval();
    match run.index.list(*op) {
      Ok(Some(r)) if r == run.model.sats.utxos[op].ranges => {}
      other => rep.violation("C01/list-api-differs", format!("height {h}: Index::list({op}) = {other:?}, reference {:?}", run.model.sats.utxos[op].ranges), run.replay.clone()),
    }
  }
  // lost sats
  rep.eval();
  let lost = by_outpoint.get(&OutPoint::null()).map(|u| u.sat_ranges.clone().unwrap_or_default()).unwrap_or_default();
  if lost != run.model.sats.lost {
    rep.violation("C01/lost-ranges-differ", format!("height {h}: lost-sats output: index {:?}, reference {:?}", lost, run.model.sats.lost), run.replay.clone());
  }
  if !run.model.sats.lost.is_empty() {
    rep.count("audits_with_lost_sats");
    match run.index.list(OutPoint::null()) {
      Ok(Some(r)) if r == run.model.sats.lost => {}
      other => rep.violation("C01/list-api-differs", format!("height {h}: Index::list(null) = {other:?}"), run.replay.clone()),
    }
  }
  // nothing else may be listed
  for u in &utxos {
    if u.outpoint == OutPoint::null() || u.outpoint == ord::unbound_outpoint() {
      continue;
    }
    if !run.model.sats.utxos.contains_key(&u.outpoint) {
      // an output that a duplicate txid re-created and that was then spent:
      // the index may keep the *displaced* entry (see known findings)
      let displaced = run.model.sats.displaced_log.iter().find(|(_, op, _)| *op == u.outpoint);
      let stale_displaced = displaced.is_some_and(|(_, _, old)| u.sat_ranges.as_ref() == Some(old));
      let sig = if stale_displaced { "C01/extra-output/displaced-entry-survives-spend-of-its-duplicate" } else { "C01/extra-output" };
      rep.violation(sig, format!("height {h}: index lists {} which is spent or unknown in the reference (displaced earlier: {:?})", u.outpoint, displaced.map(|d| d.0)), run.replay.clone());
    }
  }
  rep.add("outputs_compared", checked);
  rep.count("audits");
}

/// C02: partition of the mined sats; all sat lookups agree with the table.
pub fn audit_c02(run: &Run, rng: &mut Rng, rep: &mut Report) {
  let utxos = match run.index.verif_utxos() {
    Ok(u) => u,
    Err(e) => {
      rep.inconclusive(format!("verif_utxos failed: {e}"));
      return;
    }
  };
  let h = run.model.height();
  let mined_end = sats::first_sat(h);
  // (start, end, outpoint, offset) of every range the index holds
  let mut table: Vec<(u64, u64, OutPoint, u64)> = Vec::new();
  let mut stale: BTreeSet<OutPoint> = BTreeSet::new();
  for u in &utxos {
    let ranges = u.sat_ranges.clone().unwrap_or_default();
    // A displaced entry that survived because its duplicate was created and
    // spent inside one commit batch (known finding): report it under its own
    // signature and keep it out of the table so that it cannot mask anything.
    if u.outpoint != OutPoint::null()
      && !run.model.sats.utxos.contains_key(&u.outpoint)
      && run.model.sats.displaced_log.iter().any(|(_, op, old)| *op == u.outpoint && *old == ranges)
    {
      rep.violation(
        "C02/partition-overlap/displaced-entry-survives-spend-of-its-duplicate",
        format!("height {h}: {} still holds {:?}, sats destroyed when a duplicate txid re-created that output (which was spent since)", u.outpoint, ranges),
        run.replay.clone(),
      );
      stale.insert(u.outpoint);
      continue;
    }
    let mut offset = 0;
    for (a, b) in &ranges {
      if b <= a {
        rep.violation("C02/empty-or-inverted-range", format!("height {h}: {} holds range ({a},{b})", u.outpoint), run.replay.clone());
      }
      table.push((*a, *b, u.outpoint, offset));
      offset += b - a;
    }
    rep.eval();
    // each real output's ranges add up to its value
    if u.outpoint != OutPoint::null() && u.outpoint != ord::unbound_outpoint() {
      if let Some(out) = run.model.sats.utxos.get(&u.outpoint)
        && offset != out.value
      {
        rep.violation("C02/ranges-do-not-add-up-to-value", format!("height {h}: {} ranges total {offset}, output value {}", u.outpoint, out.value), run.replay.clone());
      }
    }
  }
  table.sort();
  // tiling: index ranges + destroyed ranges = [0, mined_end)
  let mut all: Vec<(u64, u64, bool)> = table.iter().map(|(a, b, _, _)| (*a, *b, false)).collect();
  all.extend(run.model.sats.destroyed.iter().map(|(a, b)| (*a, *b, true)));
  all.sort();
  let mut cursor = 0u64;
  let mut tiling_ok = true;
  let mut prev = (0u64, 0u64, false);
  for (a, b, d) in &all {
    if *a != cursor {
      tiling_ok = false;
      let what = if *a < cursor { "overlap" } else { "gap" };
      let owner = |r: &(u64, u64, bool)| {
        if r.2 {
          format!("destroyed by a duplicate txid (reference: {:?})", run.model.sats.displaced_log.iter().find(|(_, _, rs)| rs.iter().any(|x| x.0 <= r.0 && r.0 < x.1)).map(|(h, op, _)| (h, op)))
        } else {
          let holder = table.iter().find(|t| t.0 == r.0 && t.1 == r.1).map(|t| (t.2, t.3));
          format!("held by {:?} (reference entry for that outpoint: {:?})", holder, holder.and_then(|(op, _)| run.model.sats.utxos.get(&op).map(|o| (o.height, o.value, o.ranges.len()))))
        }
      };
      rep.violation(
        &format!("C02/partition-{what}"),
        format!(
          "height {h}: sats [{}, {}) {} (mined so far: [0, {mined_end})); range {:?} {}; range {:?} {}",
          cursor.min(*a),
          cursor.max(*a),
          if *a < cursor { "are held twice" } else { "are held nowhere" },
          (prev.0, prev.1),
          owner(&prev),
          (a, b),
          owner(&(*a, *b, *d)),
        ),
        run.replay.clone(),
      );
      break;
    }
    cursor = *b;
    prev = (*a, *b, *d);
  }
  if tiling_ok && cursor != mined_end {
    rep.violation("C02/partition-end", format!("height {h}: ranges end at {cursor}, mined sats end at {mined_end}"), run.replay.clone());
  }
  rep.eval();
  rep.add("ranges_tiled", table.len() as u64);
  if !run.model.sats.destroyed.is_empty() {
    rep.count("audits_with_destroyed_sats");
  }

  let locate = |s: u64| -> Option<(OutPoint, u64)> {
    let i = table.partition_point(|(a, _, _, _)| *a <= s);
    if i == 0 {
      return None;
    }
    let (a, b, op, off) = table[i - 1];
    (s < b).then(|| (op, off + s - a))
  };

  // find(): boundaries, rare sats, random interior, destroyed, unmined
  let mut probes: Vec<u64> = Vec::new();
  for _ in 0..6 {
    if table.is_empty() {
      break;
    }
    let (a, b, _, _) = table[rng.below(table.len() as u64) as usize];
    probes.extend([a, b - 1, a + rng.below(b - a)]);
  }
  for k in 0..3u32 {
    if h > k {
      probes.push(sats::first_sat(rng.below(u64::from(h)) as u32)); // an uncommon sat
    }
  }
  if let Some((a, b)) = run.model.sats.destroyed.first() {
    probes.extend([*a, *b - 1]);
  }
  probes.extend([mined_end, mined_end + rng.below(1_000_000), Sat::LAST.0]);
  for s in probes {
    if s > Sat::LAST.0 {
      continue;
    }
    rep.eval();
    let want = if s >= mined_end { None } else { locate(s) };
    match catch(|| run.index.find(Sat(s))) {
      Ok(Ok(got)) => {
        let got = got.map(|sp| (sp.outpoint, sp.offset));
        if got.is_some_and(|(op, _)| stale.contains(&op)) {
          // same defect as the stale displaced entry reported above
          rep.count("find_hit_stale_displaced_entry");
        } else if got != want {
          let sig = if s >= mined_end { "C02/find/unmined-sat-found" } else { "C02/find/disagrees-with-table" };
          rep.violation(sig, format!("height {h}: find({s}) = {got:?}, table says {want:?}"), run.replay.clone());
        } else {
          rep.count("find_ok");
        }
      }
      Ok(Err(e)) => rep.violation("C02/find/error", format!("height {h}: find({s}): {e}"), run.replay.clone()),
      Err(p) => rep.violation(&format!("C02/find/panic/{}", panic_signature(&p)), format!("height {h}: find({s}): {p}"), run.replay.clone()),
    }
  }
  // find_range on random sub-intervals of the mined range
  for _ in 0..3 {
    if mined_end < 2 {
      break;
    }
    let a = if rng.chance(1, 2) && !table.is_empty() { table[rng.below(table.len() as u64) as usize].0 } else { rng.below(mined_end - 1) };
    let len = 1 + rng.log_u64() % (mined_end - a).min(20_000_000_000);
    let b = (a + len).min(mined_end);
    rep.eval();
    match catch(|| run.index.find_range(Sat(a), Sat(b))) {
      Ok(Ok(Some(pieces))) => {
        // pieces must be exactly the table's ranges clipped to [a,b), with the table's satpoints
        let mut want: Vec<(u64, u64, OutPoint, u64)> = Vec::new();
        for (ra, rb, op, off) in &table {
          if *rb > a && *ra < b {
            let s = (*ra).max(a);
            let e = (*rb).min(b);
            want.push((s, e - s, *op, off + s - ra));
          }
        }
        let mut got: Vec<(u64, u64, OutPoint, u64)> =
          pieces.iter().map(|p| (p.start, p.size, p.satpoint.outpoint, p.satpoint.offset)).filter(|g| !stale.contains(&g.2)).collect();
        got.sort();
        want.sort();
        if got != want {
          rep.violation("C02/find-range/disagrees-with-table", format!("height {h}: find_range({a},{b}) = {got:?}, table says {want:?}"), run.replay.clone());
        } else {
          rep.count("find_range_ok");
        }
      }
      Ok(Ok(None)) => rep.violation("C02/find-range/none-for-mined-range", format!("height {h}: find_range({a},{b}) = None although mined sats end at {mined_end}"), run.replay.clone()),
      Ok(Err(e)) => rep.violation("C02/find-range/error", format!("height {h}: find_range({a},{b}): {e}"), run.replay.clone()),
      Err(p) => rep.violation(&format!("C02/find-range/panic/{}", panic_signature(&p)), format!("height {h}: find_range({a},{b}): {p}"), run.replay.clone()),
    }
  }
  // a range reaching into unmined blocks is not found
  rep.eval();
  match catch(|| run.index.find_range(Sat(mined_end.saturating_sub(5)), Sat(mined_end + 5))) {
    Ok(Ok(None)) => {}
    other => rep.violation("C02/find-range/unmined-range-found", format!("height {h}: find_range over the mined end = {:?}", other.map(|r| r.map(|o| o.map(|v| v.len())))), run.replay.clone()),
  }
  // rare-sat table: exactly the uncommon range starts, at the table's satpoints.
  // "Uncommon" is decided by the harness's own epoch table (first sat of a
  // block), not by Sat::common(), which is code under test (C29).
  match run.index.rare_sat_satpoints() {
    Ok(rare) => {
      rep.eval();
      let want: BTreeMap<u64, (OutPoint, u64)> = table.iter().filter(|(a, _, _, _)| crate::props::c29::ref_locate(*a).1 == 0).map(|(a, _, op, off)| (*a, (*op, *off))).collect();
      let got: BTreeMap<u64, (OutPoint, u64)> = rare.iter().map(|(s, sp)| (s.0, (sp.outpoint, sp.offset))).collect();
      for (s, loc) in &got {
        match want.get(s) {
          Some(w) if w == loc => {}
          Some(w) => rep.violation("C02/rare-table/wrong-satpoint", format!("height {h}: rare sat {s} listed at {loc:?}, table says {w:?}"), run.replay.clone()),
          None => {
            let destroyed = run.model.sats.destroyed.iter().any(|(a, b)| a <= s && s < b);
            let sig = if destroyed { "C02/rare-table/stale-after-displacement" } else { "C02/rare-table/stale-entry" };
            rep.violation(sig, format!("height {h}: rare-sat table lists sat {s} at {loc:?} but no output holds a range starting there (destroyed by duplicate txid: {destroyed})"), run.replay.clone());
          }
        }
      }
      for (s, w) in &want {
        if !got.contains_key(s) {
          rep.violation("C02/rare-table/missing", format!("height {h}: uncommon sat {s} at {w:?} is not in the rare-sat table"), run.replay.clone());
        }
      }
      rep.add("rare_sats_compared", want.len() as u64);
      // point lookups
      for (s, w) in want.iter().take(5) {
        match run.index.rare_sat_satpoint(Sat(*s)) {
          Ok(Some(sp)) if (sp.outpoint, sp.offset) == *w => {}
          other => rep.violation("C02/rare-table/point-lookup", format!("height {h}: rare_sat_satpoint({s}) = {other:?}, table says {w:?}"), run.replay.clone()),
        }
      }
    }
    Err(e) => rep.inconclusive(format!("rare_sat_satpoints failed: {e}")),
  }
  rep.count("audits");
}

/// C17: the address index lists exactly the unspent outputs of each script.
pub fn audit_c17(run: &Run, rep: &mut Report) {
  let h = run.model.height();
  let pairs = match run.index.verif_address_index() {
    Ok(p) => p,
    Err(e) => {
      rep.inconclusive(format!("verif_address_index failed: {e}"));
      return;
    }
  };
  let special = |op: &OutPoint| *op == OutPoint::null() || *op == ord::unbound_outpoint();
  let got: BTreeSet<(Vec<u8>, OutPoint)> = pairs.into_iter().filter(|(_, op)| !special(op)).collect();
  let want: BTreeSet<(Vec<u8>, OutPoint)> = run.model.sats.utxos.iter().map(|(op, o)| (o.script.to_bytes(), *op)).collect();
  rep.eval();
  for (script, op) in got.difference(&want) {
    let sig = if run.model.sats.utxos.contains_key(op) { "C17/wrong-script" } else { "C17/spent-output-listed" };
    rep.violation(sig, format!("height {h}: address index lists {op} under script {} but the reference does not", hexs(script)), run.replay.clone());
  }
  for (script, op) in want.difference(&got) {
    rep.violation("C17/unspent-output-missing", format!("height {h}: unspent {op} paying script {} is not in the address index", hexs(script)), run.replay.clone());
  }
  rep.add("address_pairs_compared", want.len() as u64);
  // every entry's recorded script and value match the creating transaction
  match run.index.verif_utxos() {
    Ok(utxos) => {
      for u in utxos.iter().filter(|u| !special(&u.outpoint)) {
        rep.eval();
        if let Some(out) = run.model.sats.utxos.get(&u.outpoint) {
          if u.script_pubkey.as_deref() != Some(out.script.as_bytes()) || u.value != out.value {
            rep.violation(
              "C17/entry-script-or-value",
              format!("height {h}: {} recorded as value {} script {:?}, created with value {} script {}", u.outpoint, u.value, u.script_pubkey.as_ref().map(|s| hexs(s)), out.value, hexs(out.script.as_bytes())),
              run.replay.clone(),
            );
          }
        } else {
          rep.violation("C17/spent-output-listed", format!("height {h}: utxo table still holds {}", u.outpoint), run.replay.clone());
        }
      }
    }
    Err(e) => rep.inconclusive(format!("verif_utxos failed: {e}")),
  }
  // public API per address-able script
  let mut by_script: BTreeMap<Vec<u8>, BTreeSet<OutPoint>> = BTreeMap::new();
  for (op, o) in &run.model.sats.utxos {
    by_script.entry(o.script.to_bytes()).or_default().insert(*op);
  }
  for script in &run.bgen.scripts {
    if let Ok(address) = bitcoin::Address::from_script(script, Network::Regtest) {
      rep.eval();
      let want = by_script.get(script.as_bytes()).cloned().unwrap_or_default();
      match run.index.get_address_info(&address) {
        Ok(list) => {
          let got: BTreeSet<OutPoint> = list.iter().copied().collect();
          if got != want || got.len() != list.len() {
            rep.violation("C17/get-address-info", format!("height {h}: get_address_info({address}) = {list:?}, reference {want:?}"), run.replay.clone());
          } else {
            rep.count("address_lookups_ok");
            rep.max("max_outputs_per_script", want.len() as u64);
          }
        }
        Err(e) => rep.violation("C17/get-address-info-error", format!("{e}"), run.replay.clone()),
      }
    }
  }
  rep.count("audits");
}

