pub mod c26;
pub mod c29;
pub mod c32;
pub mod c33;
