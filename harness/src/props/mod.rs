pub mod c26;
