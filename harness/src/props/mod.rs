pub mod c25;
pub mod c26;
pub mod c29;
pub mod c31;
pub mod c32;
pub mod c33;
pub mod c36;
pub mod chain;
