//! Run context shared by all property drivers.

use crate::rng::Rng;
use std::time::{Duration, Instant};

#[derive(Clone, Copy, PartialEq, Eq, Debug)]
pub enum Tier {
  Quick,
  Thorough,
}

#[derive(Clone, Debug)]
pub struct Ctx {
  pub prop: String,
  pub seed: u64,
  pub shard: u64,
  pub nshards: u64,
  pub tier: Tier,
  pub budget: Duration,
  pub only_case: Option<u64>,
  pub out: String,
  pub scratch: String,
  pub start: Instant,
  pub args: Vec<String>,
}

impl Ctx {
  pub fn parse(prop: &str, args: &[String]) -> Ctx {
    let mut ctx = Ctx {
      prop: prop.into(),
      seed: 0,
      shard: 0,
      nshards: 1,
      tier: Tier::Quick,
      budget: Duration::from_secs(30),
      only_case: None,
      out: String::new(),
      scratch: String::new(),
      start: Instant::now(),
      args: Vec::new(),
    };
    let mut i = 0;
    while i < args.len() {
      let val = |i: usize| args.get(i + 1).cloned().unwrap_or_else(|| panic!("missing value for {}", args[i]));
      match args[i].as_str() {
        "--seed" => {
          ctx.seed = val(i).parse().unwrap();
          i += 1;
        }
        "--shard" => {
          ctx.shard = val(i).parse().unwrap();
          i += 1;
        }
        "--nshards" => {
          ctx.nshards = val(i).parse().unwrap();
          i += 1;
        }
        "--tier" => {
          ctx.tier = if val(i) == "thorough" { Tier::Thorough } else { Tier::Quick };
          i += 1;
        }
        "--budget-ms" => {
          ctx.budget = Duration::from_millis(val(i).parse().unwrap());
          i += 1;
        }
        "--case" => {
          ctx.only_case = Some(val(i).parse().unwrap());
          i += 1;
        }
        "--out" => {
          ctx.out = val(i);
          i += 1;
        }
        "--scratch" => {
          ctx.scratch = val(i);
          i += 1;
        }
        other => ctx.args.push(other.into()),
      }
      i += 1;
    }
    ctx
  }

  /// The enumerated (non-random) part of a check runs once, on shard 0; a
  /// replay addresses it as case u64::MAX.
  pub fn deterministic_part(&self) -> bool {
    self.shard == 0 && self.only_case.is_none_or(|c| c == u64::MAX)
  }

  pub fn thorough(&self) -> bool {
    self.tier == Tier::Thorough
  }

  pub fn time_left(&self) -> bool {
    self.start.elapsed() < self.budget
  }

  pub fn fraction_elapsed(&self) -> f64 {
    self.start.elapsed().as_secs_f64() / self.budget.as_secs_f64()
  }

  pub fn rng(&self, case: u64) -> Rng {
    Rng::new(self.seed, self.shard, case)
  }

  /// Iterate case indices owned by this shard until the time budget or
  /// `max` is exhausted (or just the replayed case).
  pub fn cases(&self, max: u64) -> CaseIter<'_> {
    CaseIter {
      ctx: self,
      next: 0,
      max,
      done_single: false,
    }
  }

  pub fn replay_info(&self, case: u64) -> serde_json::Value {
    serde_json::json!({
      "property": self.prop,
      "seed": self.seed,
      "shard": self.shard,
      "nshards": self.nshards,
      "tier": if self.thorough() { "thorough" } else { "quick" },
      "case": case,
      "args": self.args,
    })
  }
}

pub struct CaseIter<'a> {
  ctx: &'a Ctx,
  next: u64,
  max: u64,
  done_single: bool,
}

impl Iterator for CaseIter<'_> {
  type Item = u64;

  fn next(&mut self) -> Option<u64> {
    if let Some(case) = self.ctx.only_case {
      if self.done_single {
        return None;
      }
      self.done_single = true;
      return Some(case);
    }
    if self.next >= self.max || !self.ctx.time_left() {
      return None;
    }
    let c = self.next;
    self.next += 1;
    Some(c)
  }
}
