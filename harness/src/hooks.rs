//! Harness side of the H1 hook (`ord::verif::point`): trace recording, crash
//! injection (abort at the n-th hit), logical-step fuse (panic with a marker)
//! and delay injection. Configuration is per process; the state is behind one
//! mutex and updated in the hooked thread itself, so the monitor adds no race.

use std::{
  collections::BTreeMap,
  sync::{Arc, Mutex},
  time::Duration,
};

pub const FUSE_MARKER: &str = "VERIF-FUSE";

#[derive(Default)]
pub struct HookState {
  pub trace: Vec<(&'static str, u64, u64)>,
  pub counts: BTreeMap<&'static str, u64>,
  pub total: u64,
  pub record_trace: bool,
  /// abort the process at the n-th (1-based) hit of this point
  pub abort_at: Option<(String, u64)>,
  /// abort the process at the n-th hit of any point
  pub abort_at_any: Option<u64>,
  /// panic (fuse) when a point has been hit more than `budget` times since the last reset
  pub fuses: Vec<(String, u64)>,
  /// sleep at every hit of a point
  pub sleeps: Vec<(String, u64)>,
  /// append one line per hit to this file (crash workers: the parent reads
  /// how far the worker got)
  pub progress_file: Option<std::path::PathBuf>,
  /// run a node-side action at the n-th hit of a point (once): used to make
  /// a reorganisation land *during* an update at a chosen logical step
  pub action_at: Option<(String, u64, Box<dyn FnMut() + Send>)>,
}

#[derive(Clone)]
pub struct Hooks(pub Arc<Mutex<HookState>>);

impl Hooks {
  pub fn install() -> Hooks {
    let state = Arc::new(Mutex::new(HookState::default()));
    let s = state.clone();
    ord::verif::set_hook(Some(Arc::new(move |name: &'static str, a: u64, b: u64| {
      let mut sleep_ms = 0;
      let mut fuse: Option<String> = None;
      {
        let mut st = s.lock().unwrap_or_else(|e| e.into_inner());
        st.total += 1;
        let n = {
          let c = st.counts.entry(name).or_default();
          *c += 1;
          *c
        };
        if st.record_trace && st.trace.len() < 200_000 {
          st.trace.push((name, a, b));
        }
        if let Some(f) = &st.progress_file {
          use std::io::Write;
          if let Ok(mut file) = std::fs::OpenOptions::new().create(true).append(true).open(f) {
            let _ = writeln!(file, "{name} {a} {b}");
          }
        }
        let abort = st.abort_at.as_ref().is_some_and(|(p, nth)| p == name && *nth == n) || st.abort_at_any.is_some_and(|nth| nth == st.total);
        if abort {
          // process death: no unwinding, no destructors, nothing flushed
          std::process::abort();
        }
        if st.action_at.as_ref().is_some_and(|(p, nth, _)| p == name && *nth == n) {
          let (_, _, mut action) = st.action_at.take().unwrap();
          action();
        }
        for (p, budget) in &st.fuses {
          if p == name && n > *budget {
            fuse = Some(format!("{FUSE_MARKER}: point {name} hit {n} times (budget {budget})"));
          }
        }
        for (p, ms) in &st.sleeps {
          if p == name {
            sleep_ms = *ms;
          }
        }
      }
      if sleep_ms > 0 {
        std::thread::sleep(Duration::from_millis(sleep_ms));
      }
      if let Some(msg) = fuse {
        panic!("{msg}");
      }
    })));
    Hooks(state)
  }

  pub fn reset_counts(&self) {
    let mut st = self.0.lock().unwrap_or_else(|e| e.into_inner());
    st.counts.clear();
    st.trace.clear();
    st.total = 0;
  }

  pub fn count(&self, point: &str) -> u64 {
    let st = self.0.lock().unwrap_or_else(|e| e.into_inner());
    st.counts.iter().find(|(k, _)| **k == point).map(|(_, v)| *v).unwrap_or(0)
  }

  pub fn counts(&self) -> BTreeMap<&'static str, u64> {
    self.0.lock().unwrap_or_else(|e| e.into_inner()).counts.clone()
  }

  pub fn trace(&self) -> Vec<(&'static str, u64, u64)> {
    self.0.lock().unwrap_or_else(|e| e.into_inner()).trace.clone()
  }

  pub fn configure(&self, f: impl FnOnce(&mut HookState)) {
    let mut st = self.0.lock().unwrap_or_else(|e| e.into_inner());
    f(&mut st);
  }
}

impl Drop for Hooks {
  fn drop(&mut self) {
    if Arc::strong_count(&self.0) <= 2 {
      ord::verif::set_hook(None);
    }
  }
}
