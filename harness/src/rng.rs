//! Deterministic PRNG (SplitMix64). A case is reproducible from
//! (seed, shard, case) alone.

#[derive(Clone, Debug)]
pub struct Rng(u64);

impl Rng {
  pub fn new(seed: u64, shard: u64, case: u64) -> Self {
    let mut r = Rng(seed ^ 0x9E37_79B9_7F4A_7C15);
    r.next_u64();
    r.0 ^= shard.wrapping_mul(0xD1B5_4A32_D192_ED03);
    r.next_u64();
    r.0 ^= case.wrapping_mul(0x8CB9_2BA7_2F3D_8DD7);
    r.next_u64();
    r
  }

  pub fn fork(&mut self) -> Rng {
    Rng(self.next_u64())
  }

  pub fn next_u64(&mut self) -> u64 {
    self.0 = self.0.wrapping_add(0x9E37_79B9_7F4A_7C15);
    let mut z = self.0;
    z = (z ^ (z >> 30)).wrapping_mul(0xBF58_476D_1CE4_E5B9);
    z = (z ^ (z >> 27)).wrapping_mul(0x94D0_49BB_1331_11EB);
    z ^ (z >> 31)
  }

  pub fn next_u32(&mut self) -> u32 {
    (self.next_u64() >> 32) as u32
  }

  pub fn next_u128(&mut self) -> u128 {
    (u128::from(self.next_u64()) << 64) | u128::from(self.next_u64())
  }

  /// uniform in 0..n (n > 0)
  pub fn below(&mut self, n: u64) -> u64 {
    assert!(n > 0);
    self.next_u64() % n
  }

  pub fn below_u128(&mut self, n: u128) -> u128 {
    assert!(n > 0);
    self.next_u128() % n
  }

  /// uniform in lo..=hi
  pub fn range(&mut self, lo: u64, hi: u64) -> u64 {
    assert!(lo <= hi);
    if lo == 0 && hi == u64::MAX {
      return self.next_u64();
    }
    lo + self.below(hi - lo + 1)
  }

  pub fn usize(&mut self, lo: usize, hi: usize) -> usize {
    self.range(lo as u64, hi as u64) as usize
  }

  /// true with probability num/den
  pub fn chance(&mut self, num: u64, den: u64) -> bool {
    self.below(den) < num
  }

  pub fn pick<'a, T>(&mut self, items: &'a [T]) -> &'a T {
    &items[self.below(items.len() as u64) as usize]
  }

  pub fn weighted(&mut self, weights: &[u64]) -> usize {
    let total: u64 = weights.iter().sum();
    let mut x = self.below(total);
    for (i, w) in weights.iter().enumerate() {
      if x < *w {
        return i;
      }
      x -= *w;
    }
    unreachable!()
  }

  pub fn bytes(&mut self, n: usize) -> Vec<u8> {
    let mut v = Vec::with_capacity(n);
    while v.len() < n {
      let x = self.next_u64().to_le_bytes();
      let take = (n - v.len()).min(8);
      v.extend_from_slice(&x[..take]);
    }
    v
  }

  /// between lo and hi random bytes
  pub fn some_bytes(&mut self, lo: usize, hi: usize) -> Vec<u8> {
    let n = self.usize(lo, hi);
    self.bytes(n)
  }

  /// A u64 whose magnitude is log-uniform: pick a bit length first.
  pub fn log_u64(&mut self) -> u64 {
    let bits = self.below(65);
    if bits == 0 {
      0
    } else {
      let x = self.next_u64() >> (64 - bits);
      x | (1 << (bits - 1))
    }
  }

  pub fn log_u128(&mut self) -> u128 {
    let bits = self.below(129);
    if bits == 0 {
      0
    } else {
      let x = self.next_u128() >> (128 - bits);
      x | (1 << (bits - 1))
    }
  }

  /// Values near interesting boundaries of u128.
  pub fn edge_u128(&mut self) -> u128 {
    let base: u128 = match self.below(8) {
      0 => 0,
      1 => u128::MAX,
      2 => u128::from(u64::MAX),
      3 => u128::from(u32::MAX),
      4 => 1u128 << self.below(128),
      5 => 10u128.pow(self.below(39) as u32),
      6 => 26u128.pow(self.below(28) as u32),
      _ => self.log_u128(),
    };
    match self.below(5) {
      0 => base.wrapping_add(1),
      1 => base.wrapping_sub(1),
      2 => base.wrapping_add(self.below(4) as u128),
      _ => base,
    }
  }

  pub fn shuffle<T>(&mut self, v: &mut [T]) {
    for i in (1..v.len()).rev() {
      let j = self.below(i as u64 + 1) as usize;
      v.swap(i, j);
    }
  }
}
