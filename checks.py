"""Per-property configuration of the runner (budgets, evidence texts)."""

PURE_ASSUME = [
    "reference evaluator (arbitrary-precision, written from the documentation) is correct",
    "checked build = opt-level 1 with overflow checks and debug assertions; release pass (thorough) = opt-level 3 without",
]

CHECKS = {
    "C26": {
        "level": "exploration",
        "shards_quick": 8, "budget_quick": 10,
        "shards_thorough": 16, "budget_thorough": 120,
        "release_pass": True, "miri": True,
        "technique": "differential monitor: real codec vs big-integer reference decoder on generated inputs; overflow-checked and release builds; Miri",
        "level_text": "Exploration: tens of millions of generated values and byte strings per run, exhaustive on byte strings of length <= 2 and on the 19-byte boundary; every decode compared with an independent arbitrary-precision decoder. Not a proof over all u128 / all byte strings.",
        "rule": "u128 values (all 2^k±1, random, log-uniform, boundary) round-tripped; byte strings (all of length<=2, the 19-byte boundary with every last byte, random with high continuation density) decoded and compared with a big-integer reference LEB128 decoder. distinct = (outcome class, length, bit-length) tuples.",
        "assumptions": PURE_ASSUME,
        "floors": {"evaluations": 100000, "decode_ok": 1000, "decode_err_Overflow": 10, "decode_err_Overlong": 10, "decode_err_Unterminated": 10},
    },
}

NOT_APPLICABLE = {}
