"""Per-property configuration of the runner (budgets, evidence texts)."""

PURE_ASSUME = [
    "the reference evaluator (arbitrary-precision / independently accumulated, written from the documentation) is correct",
    "checked build = opt-level 1 with overflow checks and debug assertions; the thorough tier repeats the workload on a release build (opt-level 3, wrapping arithmetic)",
]

CHECKS = {}


def pure(pid, technique, level_text, rule, floors, shards_quick=8, budget_quick=12, budget_thorough=150, miri=True, release=True, **kw):
    CHECKS[pid] = dict(
        level="exploration", technique=technique, level_text=level_text, rule=rule, floors=floors,
        shards_quick=shards_quick, budget_quick=budget_quick, shards_thorough=kw.pop("shards_thorough", 16),
        budget_thorough=budget_thorough, release_pass=release, miri=miri, assumptions=PURE_ASSUME, **kw)


pure("C26",
     "differential monitor: real varint codec vs big-integer reference decoder on generated inputs; overflow-checked and release builds; Miri",
     "Exploration: tens of millions of generated values and byte strings per run, exhaustive on byte strings of length <= 2 and on the 19-byte boundary; every decode compared with an independent arbitrary-precision decoder. Not a proof over all u128 / all byte strings.",
     "u128 values (all 2^k±1, random, log-uniform, boundary) round-tripped; byte strings (all of length<=2, the 19-byte boundary with every last byte, random with high continuation density) decoded and compared with a big-integer reference LEB128 decoder. distinct = (outcome class, length, bit-length) tuples.",
     {"evaluations": 100000, "decode_ok": 1000, "decode_err_Overflow": 10, "decode_err_Overlong": 10, "decode_err_Unterminated": 10})

pure("C29",
     "exhaustive sweep over heights + random sats against an independently accumulated subsidy schedule and attribute definitions; overflow-checked and release builds; Miri sample",
     "Exploration, exhaustive over the 6,930,000 subsidy-bearing heights when the sweep completes (counter height_sweeps_completed = number of shards; heights_checked = 6930000): first/last (and second) sat of every height, 1000+ heights beyond, the rarity census, plus random interior sats. Interior sats are sampled, not enumerated.",
     "every height h<6,930,000: starting_sat/subsidy vs running sum of 50e8>>(h/210000); height/third/epoch/cycle/period/degree/decimal/rarity/charms/common of its boundary sats vs definitions; rarity census vs Rarity::supply(); random sats located through an independent epoch table. distinct = boundary heights and (epoch, offset==0, round) classes of random sats.",
     {"evaluations": 1000000, "heights_checked": 500000},
     shards_quick=16, budget_quick=25, exhaustive_if=("heights_checked", 6930000))

pure("C30",
     "print→parse round-trip monitor over every height's boundary sats and random sats, printed form compared with the documented notation; checked and release builds; Miri sample",
     "Exploration, exhaustive over per-height boundary sats when the sweep completes; interior sats sampled (the percentile notation's double rounding is only sampled).",
     "for each sat: integer, decimal, degree, percentile and name notations printed by ord are parsed back with Sat::from_str and must give the same sat; integer/decimal/degree/name text also compared with the documented form. Sats: first and last sat of every subsidy-bearing height (second in thorough), random sats incl. epoch/block boundaries and the top of the supply.",
     {"evaluations": 1000000, "heights_checked": 500000},
     shards_quick=16, budget_quick=25, exhaustive_if=("heights_checked", 6930000))

pure("C32",
     "differential monitor: Rune/SpacedRune print+parse, commitment and reserved test vs big-integer bijective base-26 reference; checked and release builds; Miri",
     "Exploration: all n < 26^4+26^3, every name-length boundary ±2 up to 28 letters, all spacer masks for names of <= 12 letters, u128::MAX neighbourhood, random u128 / masks / letter strings up to 30 letters. Sampled beyond that.",
     "Rune(n): printed name vs reference numeral, parse(print)=n, commitment vs LE bytes w/o trailing zeros, is_reserved vs n >= value(27×'A'); name strings: parse vs reference value or range error; SpacedRune: print vs reference rendering, parse(print) = (rune, spacers masked to letters-1), '.' form. distinct = (kind, letters, bit length / popcount) classes.",
     {"evaluations": 100000, "rune_ok": 10000, "spaced_ok": 10000, "name_ok": 1000, "name_rejected_range": 100})

pure("C33",
     "exhaustive tabulation of the unlock schedule on all five networks + differential check of unlock_height against binary search over the table; checked and release builds; Miri sample",
     "Exploration, exhaustive over heights: every height of the 210,000-block window ±50 on each network is tabulated; names: every tabulated minimum ±1 (~5×10^5 per network), length boundaries, and tens of millions of random non-reserved names. Names are sampled, not enumerated.",
     "minimum_at_height tabulated over [start-50, start+210050] per network: non-increasing, <= first 13-letter name at the first rune block, 0 after the window (and at 2 windows, 6.93M, u32::MAX), pre-window sample; unlock_height(r) vs min{h: minimum(h)<=r} for all tabulated minima ±1, boundaries, random names. distinct = (network, unlock height) pairs seen.",
     {"evaluations": 1000000, "heights_tabulated": 1000000, "unlock_ok": 100000},
     shards_quick=5, shards_thorough=5, budget_quick=15, budget_thorough=120)

NOT_APPLICABLE = {}
