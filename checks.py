"""Per-property configuration of the runner (budgets, evidence texts)."""

PURE_ASSUME = [
    "the reference evaluator (arbitrary-precision / independently accumulated, written from the documentation) is correct",
    "checked build = opt-level 1 with overflow checks and debug assertions; the thorough tier repeats the workload on a release build (opt-level 3, wrapping arithmetic)",
]

CHECKS = {}


def pure(pid, technique, level_text, rule, floors, shards_quick=8, budget_quick=12, budget_thorough=150, miri=True, release=True, **kw):
    CHECKS[pid] = dict(
        level="exploration", technique=technique, level_text=level_text, rule=rule, floors=floors,
        shards_quick=shards_quick, budget_quick=budget_quick, shards_thorough=kw.pop("shards_thorough", 16),
        budget_thorough=budget_thorough, release_pass=release, miri=miri, memcheck=("pure" if miri else None), assumptions=PURE_ASSUME, **kw)


pure("C26",
     "differential monitor: real varint codec vs big-integer reference decoder on generated inputs; overflow-checked and release builds; Miri",
     "Exploration: tens of millions of generated values and byte strings per run, exhaustive on byte strings of length <= 2 and on the 19-byte boundary; every decode compared with an independent arbitrary-precision decoder. Not a proof over all u128 / all byte strings.",
     "u128 values (all 2^k±1, random, log-uniform, boundary) round-tripped; byte strings (all of length<=2, the 19-byte boundary with every last byte, random with high continuation density) decoded and compared with a big-integer reference LEB128 decoder. distinct = (outcome class, length, bit-length) tuples.",
     {"evaluations": 100000, "decode_ok": 1000, "decode_err_Overflow": 10, "decode_err_Overlong": 10, "decode_err_Unterminated": 10})

pure("C29",
     "exhaustive sweep over heights + random sats against an independently accumulated subsidy schedule and attribute definitions; overflow-checked and release builds; Miri sample",
     "Exploration, exhaustive over the 6,930,000 subsidy-bearing heights when the sweep completes (counter height_sweeps_completed = number of shards; heights_checked = 6930000): first/last (and second) sat of every height, 1000+ heights beyond, the rarity census, plus random interior sats. Interior sats are sampled, not enumerated.",
     "every height h<6,930,000: starting_sat/subsidy vs running sum of 50e8>>(h/210000); height/third/epoch/cycle/period/degree/decimal/rarity/charms/common of its boundary sats vs definitions; rarity census vs Rarity::supply(); random sats located through an independent epoch table. distinct = boundary heights and (epoch, offset==0, round) classes of random sats.",
     {"evaluations": 1000000, "heights_checked": 500000},
     shards_quick=16, budget_quick=25, exhaustive_if=("heights_checked", 6930000))

pure("C30",
     "print→parse round-trip monitor over every height's boundary sats and random sats, printed form compared with the documented notation; checked and release builds; Miri sample",
     "Exploration, exhaustive over per-height boundary sats when the sweep completes; interior sats sampled (the percentile notation's double rounding is only sampled).",
     "for each sat: integer, decimal, degree, percentile and name notations printed by ord are parsed back with Sat::from_str and must give the same sat; integer/decimal/degree/name text also compared with the documented form. Sats: first and last sat of every subsidy-bearing height (second in thorough), random sats incl. epoch/block boundaries and the top of the supply.",
     {"evaluations": 1000000, "heights_checked": 500000},
     shards_quick=16, budget_quick=25, exhaustive_if=("heights_checked", 6930000))

pure("C32",
     "differential monitor: Rune/SpacedRune print+parse, commitment and reserved test vs big-integer bijective base-26 reference; checked and release builds; Miri",
     "Exploration: all n < 26^4+26^3, every name-length boundary ±2 up to 28 letters, all spacer masks for names of <= 12 letters, u128::MAX neighbourhood, random u128 / masks / letter strings up to 30 letters. Sampled beyond that.",
     "Rune(n): printed name vs reference numeral, parse(print)=n, commitment vs LE bytes w/o trailing zeros, is_reserved vs n >= value(27×'A'); name strings: parse vs reference value or range error; SpacedRune: print vs reference rendering, parse(print) = (rune, spacers masked to letters-1), '.' form. distinct = (kind, letters, bit length / popcount) classes.",
     {"evaluations": 100000, "rune_ok": 10000, "spaced_ok": 10000, "name_ok": 1000, "name_rejected_range": 100})

pure("C33",
     "exhaustive tabulation of the unlock schedule on all five networks + differential check of unlock_height against binary search over the table; checked and release builds; Miri sample",
     "Exploration, exhaustive over heights: every height of the 210,000-block window ±50 on each network is tabulated; names: every tabulated minimum ±1 (~5×10^5 per network), length boundaries, and tens of millions of random non-reserved names. Names are sampled, not enumerated.",
     "minimum_at_height tabulated over [start-50, start+210050] per network: non-increasing, <= first 13-letter name at the first rune block, 0 after the window (and at 2 windows, 6.93M, u32::MAX), pre-window sample; unlock_height(r) vs min{h: minimum(h)<=r} for all tabulated minima ±1, boundaries, random names. distinct = (network, unlock height) pairs seen.",
     {"evaluations": 1000000, "heights_tabulated": 500000, "unlock_ok": 100000},
     shards_quick=5, shards_thorough=5, budget_quick=15, budget_thorough=120)



pure("C25",
     "differential monitor: Runestone::decipher vs a reference decipherer written from the specification (own script walker, LEB128 decoder, message parser, flaw precedence); encipher→decipher round-trip; checked and release builds; Miri",
     "Exploration: millions of generated runestones (full-domain fields, 0-64 edicts), integer-sequence mutations aimed at every flaw, byte- and script-level damage, random scripts; exhaustive sweeps of single tags 0..130 x flag sets, single flag bits 0..127, and every opcode after the magic number. All ten flaws are observed in every run (counters artifact_cen_*).",
     "well-formed runestones (edicts over few/many ids incl. u64::MAX blocks, all etching/terms subsets, divisibility<=38, spacers<=MAX, valid symbols, non-overflowing supply, valid mint/pointer) enciphered into a transaction with 0-3 outputs before/after and deciphered; the same integer sequence mutated (16 mutation kinds) and re-encoded with random push opcodes/chunking; random scripts. distinct = (input class, artifact shape: flaw / edict count / presence bits).",
     {"evaluations": 200000, "roundtrip_ok": 20000, "artifact_cen_Opcode": 100, "artifact_cen_InvalidScript": 100, "artifact_cen_Varint": 100, "artifact_cen_TruncatedField": 100,
      "artifact_cen_TrailingIntegers": 100, "artifact_cen_EdictRuneId": 100, "artifact_cen_EdictOutput": 100, "artifact_cen_SupplyOverflow": 100, "artifact_cen_UnrecognizedFlag": 100, "artifact_cen_UnrecognizedEvenTag": 100},
     budget_quick=15)

pure("C31",
     "totality / accept-by-overflow monitor: every text parser run on grammar-directed and damaged strings under overflow checks, result compared with per-notation reference grammars evaluated in arbitrary precision; release build repeats it (wrap-around shows as a wrong accepted value)",
     "Exploration over strings: structured generation around each notation (component values at 0, max, max±1, 2^32, 2^64, 2^128, 40-400 digits, signs, leading zeros, NaN/inf/1e400, names of 0-40 letters, spacers everywhere) plus junk insertion. Parsers: Sat (integer, decimal, degree, percentile, name), Rune, SpacedRune, RuneId, Decimal (+to_integer), SatPoint, InscriptionId, Outgoing. Two shards in eight send the same generated strings to the explorer's query parsers over HTTP (23 routes of an in-process server: /sat, /r/sat/../at/.., /inscription, /rune, /block, /output, /satpoint, /search, page numbers, ...): every request must get an answer (a handler panic shows as a dropped connection) and /sat/<s> may answer 200 only with the sat the string denotes. A parser rejecting a denoting string is not a violation of this property.",
     "for each generated string: panic => violation; Ok(v) where the reference grammar says the string denotes nothing or another value => violation. distinct = (parser, outcome class, length, punctuation count).",
     {"evaluations": 200000, "sat-degree_accept": 500, "sat-percentile_accept": 200, "decimal_accept": 2000, "spaced-rune_accept": 2000, "outgoing_accept": 500, "satpoint_accept": 1000, "inscription-id_accept": 1000, "http-sat_accept": 100, "http-search_status_300": 200, "http-runes-page_status_200": 100},
     miri=False, budget_quick=15)

pure("C34",
     "round-trip monitor Pile::to_string -> Decimal::from_str -> to_integer, and differential check of Decimal parsing/conversion against exact rational arithmetic; checked and release builds",
     "Exploration: all divisibilities 0..=38 x amounts {0,1,10^k±1,u128::MAX,…} enumerated, random amounts; decimal strings with up to 60 integer digits, up to 300 fractional digits, trailing zeros up to 300, divisibility 0..=255.",
     "Pile{a,d}.to_string() minus the symbol must denote a/10^d exactly and parse back to a at divisibility d; Decimal::from_str(s) must hold (value,scale) denoting s; to_integer(d) = Ok(x) only if x is exactly the denoted number of base units. distinct = (kind, divisibility, bit length / outcome class).",
     {"evaluations": 200000, "pile_roundtrip_ok": 50000, "decimal_accept": 2000, "decimal-to-integer_accept": 1000},
     miri=False, budget_quick=15)


pure("C36",
     "differential monitor: Settings::merge (real clap parsing, env map, YAML config found through every route) vs a table-driven reference of the documented precedence, compared through serde_json",
     "Exploration over configurations: for every one of the 25 settings keys all 2^3 source-presence subsets with pairwise distinct values through each of 5 config-file routes (enumerated), every chain through every flag spelling, then tens of thousands of random joint assignments of all keys.",
     "case = (flags, ORD_ env map, config file contents, chain spelling, config route in {--config, ORD_CONFIG, --config-dir, ORD_CONFIG_DIR, <data-dir>/ord.yaml, none}); expected = flag > env > file > default per key, OR for switches, union for hidden, derived cookie/data-dir/index paths per chain. distinct = per-key source-presence vectors x route.",
     {"evaluations": 5000, "merge_ok": 5000, "per_key_subsets_enumerated": 1},
     miri=False, release=False, budget_quick=10, budget_thorough=90)


CHAIN_ASSUME = [
    "reference models (BIP assign_ordinals, inscription/rune rules written from the docs) and the generator's validity rules are correct; disagreements on the unchanged tree were triaged against the specification text",
    "node = mockcore with blocks injected into its state; scripts are not executed; the generator follows ord's subsidy schedule (regtest's 150-block halving is not modelled, as in the repository's own tests); coinbase maturity 1 (100 on some thorough shards)",
    "audits run at quiescent points (after update() returned), on the checked build (overflow checks + debug assertions)",
]


def chain(pid, technique, level_text, rule, floors, budget_quick=40, budget_thorough=480, **kw):
    CHECKS[pid] = dict(
        level="exploration", technique=technique, level_text=level_text, rule=rule, floors=floors,
        shards_quick=16, budget_quick=budget_quick, shards_thorough=16, budget_thorough=budget_thorough,
        release_pass=False, miri=False, assumptions=CHAIN_ASSUME, crash_is_violation=True, **kw)


chain("C01",
      "differential monitor: real Index (sat index on) vs a naive BIP assign_ordinals reference folded over the same generated chain; full-table audit after (almost) every block",
      "Exploration over histories: per run ~10^5 blocks in ~10^3 chains of 40-110 blocks (120-400 thorough) with several fee payers per block, splits across outputs, multi-output/under-paying coinbases, zero-value and OP_RETURN outputs, same-block spend chains and byte-identical duplicate coinbases; every unspent output's ranges compared with the reference at each audit, plus 'nothing else listed'.",
      "chain = random valid blocks (transfer classes, coinbase claims 0..=subsidy+fees over 1-3 outputs, duplicate coinbases in half of the chains) indexed under --index-sats with random other flags and commit intervals {1,2,3,7,5000}; audit compares OUTPOINT_TO_UTXO_ENTRY sat ranges (hook H2) and Index::list with the reference for every unspent output and the lost-sats output. distinct = (index flags, tx count, same-block spends, multi-output coinbases, duplicates, lost ranges) per chain.",
      {"audits": 2000, "blocks": 5000, "outputs_compared": 100000, "audits_with_lost_sats": 500, "blocks_with_displacing_duplicate": 10})

chain("C02",
      "invariant monitor over the real index tables: partition (tiling) audit of all sat ranges + consistency of find / find_range / rare-sat lookups with that table, at quiescent points of generated chains",
      "Exploration over reachable index states (same chains as C01): at each audit all ranges are sorted and must tile [0, first_sat(height)) exactly once up to sats destroyed by duplicate txids; per-output sums equal output values; find() on range boundaries / rare sats / random interior / destroyed / unmined sats, find_range() on random sub-intervals and across the mined end, and the rare-sat table are compared with positions computed from the table.",
      "model-free except for the list of destroyed ranges (from the reference): tiling, value sums, ~15 find() probes, 4 find_range() probes and the whole rare-sat table per audit. distinct as C01.",
      {"audits": 2000, "blocks": 5000, "find_ok": 20000, "find_range_ok": 3000, "rare_sats_compared": 20000, "audits_with_destroyed_sats": 100})

chain("C17",
      "differential monitor: SCRIPT_PUBKEY_TO_OUTPOINT and per-entry script/value of the real index vs the reference UTXO set of the same generated chain; get_address_info per script",
      "Exploration over histories with few scripts reused heavily (14 scripts incl. P2TR/P2WPKH/P2PKH/P2SH/bare/empty), same-block spends, OP_RETURN outputs; the whole address index is compared at each audit.",
      "chains as C01 without duplicate coinbases, --index-addresses with random other flags; audit compares the multimap (hook H2) with {(script, outpoint)} of the reference, every entry's script and value with the creating transaction, and get_address_info for every address-able script. distinct as C01.",
      {"audits": 2000, "blocks": 5000, "address_pairs_compared": 100000, "address_lookups_ok": 10000})


INSC_RULE = "chains of 40-110 blocks (120-400 thorough; C05 also crosses the regtest jubilee at 110 and runs on testnet4) mixing transfers with reveal transactions: 1-3 inputs (also zero-value) x 0-3 envelopes each; envelope kinds clean (ord's own builder), pointer (in/out of range, onto inscribed sats, trailing zeros, >8 bytes), duplicate / incomplete / unrecognised even / odd fields, pushnum, stutter, junk; parents of every kind; fees from 0 to everything; OP_RETURN destinations; inscription index with random other flags and commit intervals {1,2,3,7,5000}. distinct = per-transaction shape tuples (inputs, outputs, OP_RETURN, zero-value, same-block spends, witnesses, envelopes, runestone)."

chain("C03",
      "differential monitor: inscription locations of the real index vs a reference that binds inscriptions to sat numbers and follows the BIP sat flow (independent of ord's offset/flotsam arithmetic); audited after (almost) every block",
      "Exploration over histories: every inscription of every generated chain is re-located at every audit (~10^5 location comparisons per run), including inscriptions in OP_RETURN outputs (burned charm), lost to fees (null outpoint with the lost-sats offset), revealed straight into fees, unbound ones; with and without the sat index (with it: entry sat and find() must agree).",
      INSC_RULE,
      {"audits": 2000, "bound_checked_output": 20000, "bound_checked_lost": 2000, "bound_checked_op-return": 2000, "unbound_checked": 2000, "find_agrees": 1000})

chain("C04",
      "invariant monitor over the real tables: every sequence number held by exactly one output or pseudo-output, satpoint table agrees with holders, offsets below values, counts = statistics = envelopes found by ord's parser",
      "Exploration over reachable index states: global audit of OUTPOINT_TO_UTXO_ENTRY inscription lists vs SEQUENCE_NUMBER_TO_SATPOINT and the entry table at every audit, across commit batches (special outpoints are merged at commit: intervals 1,2,3,7,5000).",
      INSC_RULE,
      {"audits": 2000, "inscriptions_audited": 50000, "holder_output": 5000, "holder_lost": 200, "holder_unbound": 200})

chain("C05",
      "invariant monitor: density/uniqueness of sequence numbers, inscription numbers and ids, mutual inverse of the lookup tables, per-block listing, jubilee rule, fee-spent reveals numbered last (arithmetic on the generated transaction)",
      "Exploration over histories on regtest (crossing the jubilee height 110 in half of the chains) and testnet4 (jubilant from genesis), mixing blessed, cursed, vindicated and fee-spent reveals.",
      INSC_RULE,
      {"audits": 1500, "inscriptions_audited": 50000, "audits_with_cursed": 300, "created_after_jubilee": 2000, "blocks_with_fee_spent_and_plain_reveals": 500})

chain("C06",
      "implication monitor: (a) reference says the sat already carried an inscription => reinscription charm; (b) generator ground truth 'clean first envelope of first input on a fresh sat' => not cursed, not vindicated, not a reinscription, non-negative number",
      "Exploration over envelope shapes and histories; only the two implications of the statement are asserted (an envelope that shares an offset but not a sat with an unbound one may legitimately carry the charm).",
      INSC_RULE,
      {"audits": 2000, "reinscriptions_checked": 5000, "clean_first_checked": 5000})

chain("C07",
      "soundness monitor for provenance: every recorded parent is older and was held by the reveal's inputs or revealed by it (reference eligibility set), no repeats, children view = exact inverse, paginated views over all pages, latest-child index and collections order",
      "Exploration with forged parent ids of every kind (absent, unrelated, in other inputs, duplicated, malformed encodings, created later / in the same transaction).",
      INSC_RULE,
      {"audits": 2000, "children_checked": 3000, "visible_collections_checked": 500})

RUNE_RULE = "chains of 40-110 blocks (120-400 thorough) on regtest from genesis with rune transactions: etchings (13+-letter / at, below, above the block minimum / reserved / duplicate names; commitment matured, too young, not taproot, missing, in another input, wrong bytes; unnamed; inside cenotaphs), terms from all presence subsets with window edges at height±1, overflowing offsets, caps 0-5; mints of existing / future / same-block / unknown ids; 0-6 edicts (id 0:0, amount 0 / balance / balance+1 / max, output = n, OP_RETURN outputs), pointers, plain transfers of runic outputs, everything-burns transactions, and integer-level mutations reaching every flaw. Rune index with random other flags. distinct as for inscriptions."

chain("C08",
      "conservation monitor (model-free): for every rune at every audit, sum of balances + burned = premine + mints x amount; no zero / unknown / duplicate balances; balances only on unspent non-OP_RETURN outputs",
      "Exploration over histories; the conservation equation is evaluated for every rune entry at every audit (~10^4 per run).",
      RUNE_RULE,
      {"audits": 2000, "conserved": 10000, "runes_with_burns": 500, "runes_with_mints": 300, "runes_etched": 300})

chain("C09",
      "differential monitor: per-outpoint balances and burned totals vs the reference runes state machine (own decipherer), plus per-transaction comparison of the emitted rune events with the reference allocation",
      "Exploration over transaction shapes x runestones x input balances; full balance map compared at every audit and every transaction's events compared, so compensating errors inside a block cannot hide.",
      RUNE_RULE,
      {"audits": 2000, "balance_maps_equal": 1500, "balance_outputs_compared": 2000, "transactions_with_rune_events_compared": 1000})

chain("C10",
      "differential monitor of the mint rule: mint counts per rune vs the reference (terms, window = [max(starts), min(ends)), cap, cenotaph mints count, no mint before the etching transaction), mints <= cap, mintable() for the next block",
      "Exploration over terms (all presence subsets, edge heights, saturating offsets) and mint timings around window edges and the cap.",
      RUNE_RULE,
      {"audits": 2000, "runes_with_mints_compared": 300, "runes_at_cap": 100, "open_mints_seen": 200})

chain("C11",
      "differential monitor of the rune set: (id, name, number) and all entry fields vs the reference etching rule; density of numbers; bijectivity of name/id/number/etching lookups; Runes / ReservedRunes statistics",
      "Exploration over etchings: every rejection reason is observed in every run (counters etchings_rejected_*), cenotaph and reserved-name etchings included.",
      RUNE_RULE,
      {"audits": 2000, "rune_entries_compared": 5000, "etchings_rejected_below-minimum": 100, "etchings_rejected_reserved": 100, "etchings_rejected_taken": 20, "etchings_rejected_no-valid-commitment": 200, "cenotaph_etchings_seen": 100, "reserved_names_seen": 500})

chain("C37",
      "replay checker: the event stream received over the real channel (capacities 1, 4, 128: back-pressure) is folded in order and compared with the index: inscription locations, charms at creation (+burned on later OP_RETURN transfers), parents, rune set, mint counts, burned totals, per-outpoint balances",
      "Exploration over histories without reorganisations; the whole stream is replayed from the start at several points of each chain.",
      INSC_RULE + " Plus the rune classes of C09 in three quarters of the chains.",
      {"audits": 300, "events_replayed": 50000, "inscriptions_replayed": 20000, "rune_events_replayed": 1000})
DRIVER_ASSUME = [
    "node = mockcore with blocks injected into its state (scripts are not executed); chains come from the same generators as C01-C11 (transfers, reveals, rune transactions, duplicate coinbases in sat-only chains)",
    "index content = masked canonical dump of every table through hook H2 (masked: timing, commit counters, savepoint bookkeeping, schema/creation metadata), read at quiescent points",
    "checked build (overflow checks + debug assertions); `cfg!(test)` is off inside ord, so durability is immediate and savepoints are live",
]


def driver(pid, technique, level_text, rule, floors, budget_quick=40, budget_thorough=480, level="exploration", **kw):
    CHECKS[pid] = dict(
        level=level, technique=technique, level_text=level_text, rule=rule, floors=floors,
        shards_quick=16, budget_quick=budget_quick, shards_thorough=16, budget_thorough=budget_thorough,
        release_pass=False, miri=False, assumptions=DRIVER_ASSUME, crash_is_violation=True, **kw)


driver("C12",
       "differential monitor over schedules: the same generated chain indexed under many (commit interval, partition into update() calls, close/reopen points, savepoint parameters, 2-3 concurrent update() callers with injected post-commit delays) and the masked dump of all tables compared with the every-block / interval-1 run",
       "Exploration over schedules x histories: ~10^2 chains x 7 schedules per quick run (14 thorough); hook counters show how many commits, savepoints and yields between concurrent callers were actually produced.",
       "chain of 40-100 blocks (60-250 thorough; one in five sat-only with duplicate coinbases, otherwise inscriptions+runes with a random subset of the optional indexes); schedule = commit interval in {1,2,3,5,17,5000} x chunking {all singles, one call, random 1-25} x reopen probability {0,10%,50%,100%} x savepoint interval {1,3,10,1000} x max savepoints {1,2,3}; every fourth schedule has 2-3 threads calling update() while blocks arrive, with 0/1/3 ms sleeps at commit.end (hook H1). distinct = schedule parameter tuples x index configuration.",
       {"evaluations": 100, "schedules_equal": 50, "commits": 2000, "savepoints_created": 500, "schedules_with_reopen": 30, "concurrent_schedules": 10})

driver("C13",
       "fault injection: the indexer runs in a worker subprocess that aborts at the n-th hit of a named program point (hook H1), at the n-th point of any kind, or is SIGKILLed after k trace events; the parent reopens the index, compares the masked dump with the reference dump of the committed height it claims, and lets a new worker continue (up to 3 deaths per step)",
       "Fault enumeration by sampling: 24 named crash points on the update / commit / savepoint / rollback path x occurrence numbers {1,2,3,5,8}, any-point#1..120 and event-count-timed SIGKILL, over histories grow-grow-(reorg of depth 1-2)-finish. The evidence lists which crash plans actually fired. Process death, not power loss.",
       "history = chain A to a1 in 6..14, to a2 = a1+1..6, optional switch to branch B of depth 1-2 (+1-4 blocks); all indexes on (sats/addresses off in a quarter), commit interval {1,2,3,5000}, savepoint interval 3, 2 savepoints; one worker per step until the tip is reached, each with a fresh crash plan. Oracle: after every worker (dead or not) the reopened index must equal the from-scratch dump at (its block count, its tip hash); a clean exit must be at the tip. A reported unrecoverable reorg is compared with the same history run without faults. distinct = (plan, step, commit interval).",
       {"evaluations": 100, "crashes_injected": 30, "consistent_after_crash": 30, "consistent_after_clean_exit": 30, "histories_completed": 10},
       level="fault_enumeration")

driver("C14",
       "fault-sequence monitor: reorganisations of chosen depth at chosen heights (relative to savepoint spacing), after or during an update (hook action at the n-th indexed block), consecutive and nested; oracle = masked dump equality with a from-scratch index on the new best chain, header check against the node, status flag on reported unrecoverable reorgs; a logical-step fuse on the retry loop turns non-termination into an observable event",
       "Exploration over (savepoint interval, max savepoints, commit interval, feed mode, reorg depth, tip height mod interval, during/after update): the evidence lists the (depth, height mod interval) pairs reached. 'Terminates' is restated as at most max_savepoints+6 iterations of the retry loop / rollbacks.",
       "index with all tables (sats/addresses off in a third), savepoint interval {3,5,10}, max savepoints {1,2,3}, commit interval {1,2,5000}, blocks fed one per update / in batches / all at once; grow 2-45 blocks (70 thorough), then 1-3 reorgs of depth 1..max_savepoints*interval+4 with 1-3 extra blocks, a quarter of them landing while pending blocks of the old branch are being indexed; one case in five is the 'uncommitted tail' scenario (savepoint interval 50, commit interval 5000, 36-40 pending blocks - more than the prefetch channel holds - with the switch landing among them and the fork inside the uncommitted tail in two thirds of them); half of the chains carry no rune transactions so that the in-flight update reaches the reorg handling. distinct = (interval, savepoints, commit interval, feed, depth, height mod interval, during-update).",
       {"evaluations": 100, "updates_ok_after_reorg": 30, "equal_to_from_scratch": 30, "rollbacks_observed": 20, "unrecoverable_reported": 10, "reorgs_during_update": 10, "reorgs_during_update_with_fetcher_still_running": 20, "reorgs_inside_the_uncommitted_tail": 12})

driver("C15",
       "differential monitor over configurations: one generated chain indexed under all 8 combinations of the sat / address / transaction indexes (inscriptions and runes on), with the first inscription / rune height at 0 or moved to 12..30 through hook H5 so that configurations without a full UTXO index fetch spent values from the node; projections of the inscription and rune tables compared",
       "Exploration over histories x the 8 optional-index combinations x {local tracking, node-fetch path} x 3 update chunkings; the evidence counts runs on each value path.",
       "chain of 35-80 blocks (60-160 thorough) mixing transfers, reveals (zero-value inputs, same-block spends, fee-spent and OP_RETURN destinations) and rune transactions, plus - when the first height is moved - one to three sweeper transactions that spend 11-45 outputs created below that height with a reveal on a non-first input (their values are fetched from the node in batches, --bitcoin-rpc-limit in {default, 1, 2, 4}); projection = inscription entries without sat and sat-derived charm bits, locations, id/number lookups, children, collections, per-height sequence numbers, blessed/cursed/unbound/rune statistics, rune entries and balances. distinct = (index bits, first-height override, chunking).",
       {"evaluations": 60, "projections_equal": 30, "runs_with_full_utxo_index": 20, "runs_fetching_values_from_node": 8, "sweeper_transactions": 8})

driver("C16",
       "totality monitor: Index::update() on generated valid chains that mix every generator class with an adversarial one (random witness stacks, dozens of envelopes per script, hostile CBOR / brotli in metadata and properties, multi-megabyte scripts, deep OP_IF nesting, runestones of 10^4 integers, u128::MAX edicts) under all 32 index configurations and both UTXO value paths; a returned error, a panic (caught, checked build) or a dead shard process (SIGSEGV/SIGABRT: stack overflow, allocation failure) is a violation",
       "Exploration over inputs x configurations: every update() call is one evaluation; blocks stay under the 4,000,000 weight-unit consensus limit (over-weight draws are regenerated and counted). Scripts are not executed by the mock node, so 'consensus-valid' means structurally valid transactions with existing unspent inputs, outputs <= inputs, coinbase <= subsidy + fees.",
       "chains of 20-60 blocks (40-150 thorough), index switches = all 32 subsets of (sats, addresses, transactions, runes, inscriptions), commit interval {1,3,5000}, first inscription/rune height 0 or 5-25 (hook H5: node-fetch path for input values), duplicate coinbases when neither inscriptions nor runes are indexed. distinct = per-transaction shape tuples and per-chain (configuration, shape) tuples.",
       {"evaluations": 300, "updates_ok": 300, "blocks": 1000, "transactions": 3000})


CODEC_ASSUME = [
    "hooks H4 are thin wrappers that only call the crate-private encoders/decoders (src/index/verif.rs, cfg-gated impl blocks in src/properties.rs and src/inscriptions/inscription.rs)",
    "checked build (overflow checks + debug assertions, which arm the output-entry builder's state machine); the thorough tier repeats the workload on a release build",
]


def codec(pid, technique, level_text, rule, floors, budget_quick=30, budget_thorough=300, **kw):
    CHECKS[pid] = dict(
        level="exploration", technique=technique, level_text=level_text, rule=rule, floors=floors,
        shards_quick=16, budget_quick=budget_quick, shards_thorough=16, budget_thorough=budget_thorough,
        release_pass=True, miri=False, memcheck="harness", memcheck_procs=2, memcheck_budget_ms=20000, assumptions=CODEC_ASSUME, crash_is_violation=True, **kw)


EXPLORER_ASSUME = [
    "the real server (Server::run, all layers) runs in-process on the same Arc<Index>, with --no-sync after the harness has indexed the whole chain: responses are read at a quiescent point",
    "stored state = tables read through hook H2 (index validated against the reference models by C01-C11) plus the chain's transactions; node-derived fields (spent, confirmations) and the order of inscriptions inside one output are not compared",
    "node = mockcore with injected blocks; raw HTTP/1.1 client without Accept-Encoding; checked build",
]

CHECKS["C18"] = dict(
    level="exploration",
    technique="differential monitor over HTTP: every inscription, unspent output, rune, address, block and inscribed sat of generated index states is requested from the in-process explorer (JSON and recursive routes, all pages, positive and negative indices) and compared with the stored tables (hook H2) and the chain's transactions",
    level_text="Exploration over index states x objects x routes: ~10^2 states per quick run (30-70 blocks; 60-160 thorough) containing unbound, lost and burned inscriptions, reinscriptions, parents/children, runes, and bulk reveals of 99-203 envelopes under one parent on one sat in one block (page boundaries at 100 and 200); a third of the states index inscriptions and runes only from height 4-14 on (hook H5), as mainnet, signet and testnet do; ~10^5 requests per run. Routes: /inscription/<id|number>, /r/inscription, /output, /r/utxo, POST /outputs, /inscriptions/block/<h>[/<page>], /r/children[/<page>], /r/children/.../inscriptions, /r/parents..., /r/sat/<n>[/<page>], /r/sat/<n>/at/<+-i>, /sat/<n>, /rune/<name|id>, /address, /block/<h>, /r/blockhash/<h>, /r/blockheight, /inscriptions[/<page>] (newest first), /status, /tx/<txid>, /r/tx/<txid>, /r/metadata/<id>.",
    rule="state = generated chain (transfers, reveals incl. zero-value inputs / fee-spent / OP_RETURN destinations, rune transactions, bulk reveals) under a random subset of the optional indexes; for each object the served JSON is deserialised into ord::api types and compared field by field with the stored entry / satpoint / children / sat tables, UTXO entries, rune balances and the creating transaction's output. Listings: concatenation of all pages = stored order, page size 100, `more` flag exact, empty page after the last; negative indices count back from the newest. distinct = (index configuration, state size class, bulk sizes).",
    floors={"evaluations": 10000, "states": 20, "inscription_json_ok": 5000, "r_inscription_json_ok": 5000, "inscriptions_lost": 100, "inscriptions_unbound": 100, "inscriptions_burned": 50, "outputs_ok": 1000, "outputs_with_inscriptions_ok": 200, "block_listings_ok": 200, "block_listings_over_one_page_ok": 5, "children_listings_ok": 200, "children_listings_over_one_page_ok": 5, "parent_listings_ok": 200, "sat_listings_ok": 100, "sat_listings_over_one_page_ok": 3, "runes_ok": 50, "addresses_ok": 50, "latest_listing_ok": 20, "status_ok": 20, "transactions_ok": 300, "states_with_late_first_inscription_height": 5},
    shards_quick=16, budget_quick=45, shards_thorough=16, budget_thorough=480, release_pass=False, miri=False,
    assumptions=EXPLORER_ASSUME, crash_is_violation=True)

CHECKS["C19"] = dict(
    level="exploration",
    technique="differential monitor over HTTP for every content-serving route (/content, /r/undelegated-content, /r/sat/<n>/at/<i>/content, /preview) of an in-process explorer: status, body, Content-Type, Content-Encoding and Cache-Control compared with a reference built from the known envelope fields; Content-Security-Policy headers evaluated by a CSP source matcher over a battery of same-origin / configured-origin / foreign URLs; substring monitor for the random markers of hidden inscriptions in every response; presence of the CSP header on every response incl. errors, redirects, JSON, static files and CORS preflights",
    level_text="Exploration over inscriptions x routes x Accept-Encoding x configurations: ~10^2 states per quick run covering all 8 combinations of {--csp-origin, --decompress, hidden list}; content types (legal, non-ASCII, illegal header values, non-UTF-8, absent), encodings (br valid / br invalid / gzip / odd / trailing space / non-UTF-8), bodies with 16-byte markers, delegates to existing, missing, delegating and hidden inscriptions, several inscriptions on one sat (negative indices). Accept-Encoding in {absent, br, gzip, 'gzip, br', 'br;q=0.5', identity}; '*' and 'q=0' forms and stored encodings that are not legal header values are sent but only checked for CSP / leakage.",
    rule="expected: hidden (requested id or, one level deep, its delegate) => nothing of the body in the response; missing inscription / delegate / body => 404 (406 tolerated); else Content-Type = stored bytes if a legal header value, otherwise application/octet-stream; stored encoding accepted (token match) => passed through with the stored bytes; else brotli + --decompress => decompressed body, no encoding (undecodable => any 4xx/5xx); else 406. Transport compression added by the server's compression layer is undone before comparing. Served content: both CSP policies together admit <origin>/content/, /r/, /blockheight, /blockhash[/], /blocktime, data:, blob: and refuse every foreign URL of the battery. Negative sat index => Cache-Control without `immutable`. Every response of every route (22 further routes incl. 400/404/405/500, POST, OPTIONS) has a Content-Security-Policy header.",
    floors={"evaluations": 50000, "states": 40, "responses_with_csp": 50000, "content_served_ok": 15000, "content_passed_through_encoded_ok": 3000, "content_decompressed_ok": 500, "content_through_delegate_ok": 500, "refused_406": 3000, "missing_answered_404": 1000, "withheld_checked": 1500, "withheld_through_delegate_checked": 200, "negative_index_content_requests": 1000, "preview_served_content_checked": 50, "other_routes_checked": 800},
    shards_quick=16, budget_quick=40, shards_thorough=16, budget_thorough=480, release_pass=False, miri=False,
    assumptions=EXPLORER_ASSUME + ["CSP evaluation: default-src only (the content policies define nothing else), host-source / scheme-source / 'self' matching per CSP3 section 6.7 for http(s), data: and blob: URLs; several policies are intersected", "HTTP basic-auth configurations are not driven (the 401 of the auth layer is outside the quantifier)"],
    crash_is_violation=True)

CHECKS["C20"] = dict(
    level="exploration",
    technique="clause-by-clause monitor on TransactionBuilder::build_transaction for generated wallets: own sat-offset walk through inputs and outputs, own virtual-size formula and fee rounding, cardinal-only input check, dust and change-script checks; panics caught and named by assertion and enclosing function; checked and release builds",
    level_text="Exploration over inputs: millions of generated wallets per run (1-12 UTXOs from 294 sat to 21M BTC, 0-5 inscriptions at any offset incl. stale ones, runic / locked subsets, outgoing satpoint inscribed / arbitrary / out of range / foreign, recipients P2TR/P2WPKH/P2WSH/P2PKH/P2SH/OP_RETURN/future witness/non-address/own change, change addresses of equal and different types, fee rates 0, subnormal, fractional, .5 products, 1-10^4, up to f64::MAX, targets Postage / Value / ExactPostage with amounts at every dust limit, 0, wallet total, u64::MAX). Sampled, not exhaustive.",
    rule="for every Ok(tx): inputs are wallet outputs, spent once, outgoing output among them; outgoing sat position (sum of earlier inputs + offset) = start of the single recipient output; every other inscription of a spent output lands in a non-recipient output (not in fees); no other input is runic, locked or inscribed; other outputs pay one of the two change scripts; no output below its script's dust limit; fee = round(rate x vsize with 64-byte witnesses) with vsize from the serialisation rules; Value(v): recipient >= v, Postage: <= 20000 + fee(43 vB), ExactPostage(p): <= p + fee(43 vB). Err is always accepted; a panic is a violation. distinct = (inputs, outputs, target, burn, inscriptions, fee-rate decade) tuples and error classes.",
    floors={"evaluations": 500000, "built_ok": 100000, "built_value": 20000, "built_exact-postage": 20000, "built_postage": 20000, "built_with_alignment_and_change": 20000, "built_with_three_or_more_inputs": 2000, "built_with_other_inscription_in_outgoing_output": 2000, "error_NotEnoughCardinalUtxos": 1000, "error_UtxoContainsAdditionalInscriptions": 1000},
    shards_quick=16, budget_quick=20, shards_thorough=16, budget_thorough=300, release_pass=True, miri=False,
    assumptions=["the builder is driven through its public constructor exactly as the wallet commands do; wallet scripts are P2TR/P2WPKH (fee estimation assumes key-path taproot inputs)", "checked build (overflow checks + debug assertions); the thorough tier repeats the workload on a release build"],
    crash_is_violation=True)

WALLET_ASSUME = [
    "the wallet is driven through the real command line: the harness binary re-executed under the name `ord` runs ord::main() built from /repo's current tree; node = mockcore (its wallet RPCs, largest-first funding among unlocked wallet outputs); explorer = the real server in-process; a recording proxy between the command line and the node gives the RPC history",
    "wallet states are created by block injection (outputs paying addresses the mock wallet owns); scripts are not executed, signatures are the mock's",
    "a mock-node panic or a command that exceeds the 120 s watchdog is inconclusive, never a verdict; checked build",
]

CHECKS["C23"] = dict(
    level="exploration",
    technique="history monitor at the RPC boundary: for every node-funded wallet command (send <amount>, mint, send/burn <runes>, split, offer create) run by the real command line on generated wallets whose inscribed and runic outputs are the largest ones, the recorded lockunspent / fundrawtransaction / sendrawtransaction calls and the node's mempool are checked: all non-cardinal wallet outputs locked (or own inputs) before funding, no input added by the node and no broadcast input is inscribed or runic",
    level_text="Exploration over wallet states x commands: each generated wallet (2-5 cardinals of 30k-200k sat, 1-3 inscribed outputs and 1-6 runic outputs of 1-50 M sat, one or two runes, optionally both runes in one output, a mintable rune, a foreign inscription to bid for, with/without sat and address index) receives every applicable command in random order; tens of wallets and about 10^2 commands per quick run.",
    rule="protected = wallet outputs that the index lists with inscriptions or rune balances (hook H2) just before the command; per command: (a) at each fundrawtransaction call every protected output is in an earlier lockunspent(false, ..) of this command or an input of the unfunded transaction; (b) funded inputs minus unfunded inputs contain no protected output; (c) no protected output other than the command's own inputs is spent by a transaction passed to sendrawtransaction or found in the mempool. distinct = wallet shape tuples.",
    floors={"evaluations": 40, "wallets": 8, "fundrawtransaction_calls": 40, "lockunspent_calls": 40, "fund_calls_with_all_non_cardinals_locked": 40, "inputs_added_by_node": 20, "funded_send-amount": 3, "funded_mint": 2, "funded_send-runes": 3, "funded_burn-runes": 3, "funded_split": 2, "funded_offer-create": 3, "wallets_on_a_server_without_inscription_index": 2},
    shards_quick=16, budget_quick=45, shards_thorough=16, budget_thorough=480, release_pass=False, miri=False,
    assumptions=WALLET_ASSUME, crash_is_violation=True)

CHECKS["C21"] = dict(
    level="exploration",
    technique="cross-component differential monitor: the real `ord wallet batch` runs on generated batch files and wallets; the harness mines the commit and reveal transactions it broadcast, the real indexer processes them, and the command's JSON report is compared with the index (ids, satpoints, destination scripts, recorded parents, fees) and with the set of inscribed / runic wallet outputs before the command",
    level_text="Exploration over batch descriptions x wallet states: four modes (separate-outputs, shared-output, same-sat with and without an explicit satpoint, satpoints) x 1-7 inscriptions x 0-2 parents x postage {none, 546 .. 20000} x per-inscription destinations (wallet / foreign / default) x metadata / metaprotocol / delegate / title+traits x fee rates x --compress, on wallets with 4-8 cardinals, 1-3 inscribed outputs and a runic output, with and without a sat index; several batches in a row per wallet (outputs of earlier batches become parents). About 10^2 batches per quick run." + " One batch in four also etches a rune (13-16 letters, optional spacer, divisibility 0-3, premine incl. 0, optional terms): a miner thread confirms the commit while the command waits for maturation.",
    rule="for every successful command: the indexer created exactly the reported ids (reveal txid, consecutive indices); each is at the reported satpoint, in an output paying the reported destination (= the batch file's destination when given), records exactly the batch file's parents, and is not unbound / lost / burned; reported parents = batch file parents and each parent ends in an output paying a wallet address; commit and reveal spend no inscribed or runic wallet output other than the parents (reveal); reported total_fees = inputs - outputs of both transactions; an etching in the batch file creates the named rune (etching = reveal txid, premine and divisibility as given) with the premine at the reported location in an output paying the reported wallet address. A failed command must leave nothing in the mempool. distinct = (mode, inscriptions, parents, postage, sat index).",
    floors={"evaluations": 40, "wallets": 8, "batches_ok": 30, "batches_ok_separate-outputs": 4, "batches_ok_shared-output": 4, "batches_ok_same-sat": 4, "batches_ok_satpoints": 3, "batches_ok_with_parents": 10, "batches_ok_with_postage": 5, "batches_ok_with_destinations": 4, "batches_ok_with_etching": 5, "inscriptions_created_and_compared": 80, "wallets_with_fragmented_cardinals": 3},
    shards_quick=16, budget_quick=50, shards_thorough=16, budget_thorough=480, release_pass=False, miri=False,
    assumptions=WALLET_ASSUME, crash_is_violation=True)

CHECKS["C22"] = dict(
    level="exploration",
    technique="conservation / exact-transfer monitor: the real command line builds and broadcasts rune send, burn and split transactions on generated inventories; the harness mines them, the real indexer applies ord's rune rules, and per-script rune balances and burned totals before and after (hook H2 + chain) are compared with the request",
    level_text="Exploration over inventories x requests: generated wallets (one or two runes with divisibility 0-3, 1-3 outputs per rune, optionally both runes in one output, mixed with inscribed and cardinal outputs) x requests {0, 1, one output's exact balance, the sum of two outputs, a random partial amount, the full balance, more than held} x {send, burn, split with one or two recipients and one or two runes} at several fee rates; about 10^2 commands per quick run.",
    rule="after mining the broadcast transaction: each recipient script gained exactly the requested units of each rune; no other foreign script's balance changed; burned total of each rune changed by exactly the requested burn (0 for send and split); wallet total of each rune dropped by exactly what was sent or burned. A refused command (non-zero exit or nothing broadcast) must leave every balance untouched; a request that names zero units must be refused. distinct = inventory shape tuples.",
    floors={"evaluations": 60, "wallets": 10, "moved_exactly_send": 8, "moved_exactly_burn": 3, "moved_exactly_split": 3, "refusals_left_balances_untouched": 10, "zero_amount_refused": 3, "moved_exactly_with_several_outputs_of_the_rune": 3},
    shards_quick=16, budget_quick=50, shards_thorough=16, budget_thorough=480, release_pass=False, miri=False,
    assumptions=WALLET_ASSUME, crash_is_violation=True)

CHECKS["C24"] = dict(
    level="exploration",
    technique="security-gate monitor at the RPC boundary: generated PSBTs (mostly one defect at a time) are handed to the real `ord wallet offer accept`; each clause of the statement is evaluated independently from the PSBT, the chain and the index; the recorded history must contain walletprocesspsbt(sign=true) or sendrawtransaction only if every clause holds, and a broadcast only if the buyer signatures came back unchanged",
    level_text="Exploration over PSBTs: wallets holding single-inscription, double-inscription, runic, inscribed-and-runic and cardinal outputs; PSBTs with 0-2 wallet inputs (right / wrong kind / right plus another), 0-3 foreign inputs (witness-signed, signed with a signature the mock will replace, scriptSig-signed, doubly signed, unsigned), seller input pre-signed, payment off by +-1 or +-2..900 sat or split over two wallet addresses, inputs in random order; about 10^2 PSBTs per quick run. mockcore's PSBT model (witness_utxo from its chain, 64 zero bytes as signature, finalize from the unsigned transaction) bounds what can be expressed; mainnet parameters, as in the repository's own offer tests.",
    rule="clauses: exactly one input is an unspent wallet output; the index lists exactly the named inscription and no runes on it; sum of outputs to wallet addresses minus that input's value = --amount; the wallet input carries no signature; every other input carries exactly one of final_script_sig / final_script_witness. If any clause fails: no walletprocesspsbt with sign=true and no sendrawtransaction may appear in the RPC history of the command and the mempool stays empty. If all hold but a buyer signature differs from what the node returns after signing: no broadcast. A refused valid offer is recorded, not judged. distinct = (wallet input kinds, foreign signature kinds, payment delta sign, pre-signed).",
    floors={"evaluations": 60, "wallets": 8, "offers_satisfying_every_clause": 15, "valid_offers_signed": 10, "valid_offers_broadcast": 5, "invalid_offers_refused": 30, "offers_violating_balance-change-differs-from-amount": 8, "offers_violating_not-exactly-one-wallet-input": 5, "offers_violating_wallet-input-does-not-hold-exactly-the-named-inscription": 3, "offers_violating_foreign-input-not-properly-signed": 5, "offers_violating_wallet-input-already-signed": 3, "changed_buyer_signature_not_broadcast": 2},
    shards_quick=16, budget_quick=50, shards_thorough=16, budget_thorough=480, release_pass=False, miri=False,
    assumptions=WALLET_ASSUME, crash_is_violation=True)

codec("C27",
      "round-trip monitor: generated Inscription values written with ord's reveal-script builder (one or several per script, several inputs, arbitrary script prefix/suffix, five witness shapes incl. annex) and parsed back with ParsedEnvelope::from_transaction; independent encoders for the compact pointer / id / rune-commitment values; totality monitor on damaged scripts and random witnesses (every accessor of the result is called); a dead shard process (stack overflow, allocation failure) is a violation",
      "Exploration over field combinations and sizes (1, 75/76, 255/256, 519-521, 1039-1041, 65535/65536, up to 400 kB; values that look like script), 0-8 inscriptions per script, 1-3 inputs; pointer and index byte-length boundaries enumerated. Witness bytes are sampled (8 hostile script classes), not enumerated.",
      "written vs parsed: every data field, input index, consecutive offsets from 0 per input, no incomplete/unrecognised-even flag, no pushnum, no stutter (unless the generated prefix ends in an empty push). The derived duplicate_field flag is not compared (ord sets it for multi-chunk metadata/properties and several parents). Inscription::new(pointer, delegate, parents, rune, file body): field bytes vs independent encoders, then pointer()/delegate()/parents() after a script round trip. distinct = script shape tuples / compact-value classes / hostile classes.",
      {"evaluations": 20000, "roundtrip_ok": 10000, "roundtrip_ok_chunked_field": 1000, "roundtrip_ok_several_parents": 1000, "roundtrip_ok_later_in_script": 2000, "roundtrip_ok_later_input": 1000, "compact_ok": 1000, "hostile_parsed": 1000})

codec("C28",
      "round-trip monitor for Properties through the inline and packed encoders, Inscription::new (with/without brotli) and a reveal script, with a reference reader on a generic CBOR parser; totality monitor on hostile CBOR; bounded-decompression monitor: brotli streams around the 30:1 and 4,000,000-byte limits compared with a full decompression, peak heap of each decode measured by a counting global allocator; a dead shard process is a violation",
      "Exploration: galleries of 0-1200 items (5000 thorough) with ids at every index byte length, titles/traits incl. i64 extremes, unicode, CBOR length boundaries; hostile CBOR classes (nesting to 3x10^5 / 2x10^6 deep, indefinite and 2^64 lengths, valid encodings in which each header in turn (gallery, item, id, attributes, title, traits, names, values) declares a length of 2^56..2^64, mutated valid encodings, schema abuse); brotli streams with ratio 1-60 and around 30, sizes around 4,000,000, bombs to 48 MB (256 MB thorough), truncated / trailing-garbage streams, other encodings. ord's quality-11 compressor limits the compressing path to about 10^3 values per quick run.",
      "properties p (no duplicate trait names): from_cbor(inline(p)) = from_cbor(packed(p)) = p, reference reader agrees, Inscription::new(compress in {false,true}) then properties() directly and after a script round trip = p (a refusal with the documented size/ratio message is counted, not a violation). Hostile bytes: no panic, no process death. Bounded: properties_cbor() returns Some(v) iff encoding = br, the stream is valid and v = full decompression with len <= min(30 x compressed, 4,000,000); peak heap <= 2 x bound + 96 MiB (brotli ring buffer).",
      {"evaluations": 1500, "roundtrip_ok_inline": 200, "roundtrip_ok_packed": 200, "reference_reader_agrees_packed": 200, "roundtrip_ok_new_compress_true": 50, "roundtrip_ok_script_compress_false": 100, "hostile_field_decoded": 300, "huge_at_position_decoded_major5": 100, "huge_at_position_decoded_major3": 20, "bounded_accepted_within_limits": 50, "bounded_refused_over_limit": 30, "bounded_class_ratio-edge": 20, "bounded_class_size-edge": 20, "bounded_class_bomb": 20, "ratio_sweep_roundtrip_ok": 20},
      budget_quick=40)

codec("C35",
      "round-trip monitor for every persisted encoding: load(store(v)) with the index's own Entry impls, the same values through an in-memory redb database opened with the index's own table definitions (write transaction, commit, read transaction), output entries built / stored / parsed / merged by real Index objects under all 8 combinations of the sat, address and inscription switches; independent unpacking of the 11-byte sat-range layout",
      "Exploration over each encoding's domain: sat ranges (start bit x length bit grid enumerated, supply and subsidy boundaries), headers, rune entries (u128/u64 extremes, every char class, all terms subsets), inscription entries (0-200 parents), ids/outpoints/satpoints/txids, rune balance lists (0-60), output entries with 0-200 ranges, scripts 0-16 kB, 0-200 inscriptions with offsets at varint length boundaries. Sampled, not exhaustive.",
      "batch of 8-40 values per type per case: direct and through redb must read back equal; output entries per configuration: value or ranges (+ total), script, inscription list equal; merged(a, b) and merged(merged(a, b), a) keep every range and inscription in order. distinct = batch shape tuples.",
      {"evaluations": 200000, "readback_ok_rune_entries": 5000, "readback_ok_inscription_entries": 5000, "readback_ok_sat_ranges": 5000, "readback_ok_rune_balances": 5000, "redb_transactions": 200, "utxo_entry_ok": 3000, "utxo_merge_ok": 2000, "utxo_flags_000": 300, "utxo_flags_111": 300, "packed_layout_ok": 5000, "sat_range_bit_grid_enumerated": 1},
      budget_quick=20)


# The wall-clock watchdog only ever yields "inconclusive"; cases of these checks
# are long (a whole chain under 8 configurations, a wallet with a dozen command
# runs), so a loaded machine needs more slack before a shard is given up.
for _p in ("C12", "C13", "C14", "C15", "C16", "C18", "C19", "C21", "C22", "C23", "C24"):
    CHECKS[_p]["watchdog_factor"] = 10

# Coverage floors exist to fail a run that observed (almost) nothing, not to
# measure throughput: the engine checks above were written against an unloaded
# 16-core run and had only a 2-4x margin (a loaded machine tripped C01's block
# floor once). Keep them roughly an order of magnitude below an unloaded run.
for _c in CHECKS.values():
    if _c["assumptions"] is CHAIN_ASSUME or _c["assumptions"] is DRIVER_ASSUME:
        _c["floors"] = {k: max(1, v // 4) for k, v in _c["floors"].items()}


NOT_APPLICABLE = {}
